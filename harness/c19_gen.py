"""C19: generation of HandshakeSettings objects and the direct oracles (written from the property
text and the documentation, independent of validate()'s code)."""
import importlib

from c19_model import LIST_FIELDS, FLAG_FIELDS, is_int

KNOWN_VERSIONS = [(3, 0), (3, 1), (3, 2), (3, 3), (3, 4)]


def hsmod():
    import tlslite.handshakesettings as m
    return m


# --------------------------------------------------------------------------------------------------
# installation, measured directly (not through tlslite's own flags)
def have(modname):
    try:
        importlib.import_module(modname)
        return True
    except Exception:  # noqa
        return False


def installation():
    # brotli decompression is bundled with tlslite (utils/brotlidecpy), compression needs the brotli package
    inst = {'openssl': have('M2Crypto'), 'pycrypto': have('Crypto.Cipher.AES'), 'python': True,
            'brotli_send': have('brotli'), 'brotli_receive': have('brotli') or have('tlslite.utils.brotlidecpy'),
            'zstd_send': have('zstandard') or have('zstd'), 'zstd_receive': have('zstandard') or have('zstd')}
    return inst


# --------------------------------------------------------------------------------------------------
NAME_FIELDS = {          # list attribute -> (documented table of allowed names, names offered by default)
    'cipherNames': 'ALL_CIPHER_NAMES', 'macNames': 'ALL_MAC_NAMES', 'keyExchangeNames': 'KEY_EXCHANGE_NAMES',
    'cipherImplementations': 'CIPHER_IMPLEMENTATIONS', 'certificateTypes': 'CERTIFICATE_TYPES',
    'rsaSigHashes': 'ALL_RSA_SIGNATURE_HASHES', 'dsaSigHashes': 'DSA_SIGNATURE_HASHES',
    'ecdsaSigHashes': 'ECDSA_SIGNATURE_HASHES', 'more_sig_schemes': 'SIGNATURE_SCHEMES',
    'rsaSchemes': 'RSA_SCHEMES', 'eccCurves': 'ALL_CURVE_NAMES', 'dhGroups': 'ALL_DH_GROUP_NAMES',
    'psk_modes': 'PSK_MODES', 'certificate_compression_send': 'ALL_COMPRESSION_ALGOS_SEND',
    'certificate_compression_receive': 'ALL_COMPRESSION_ALGOS_RECEIVE',
}
INT_BOUNDS = {           # documented inclusive bounds
    'minKeySize': (512, 16384), 'maxKeySize': (512, 16384), 'ticketLifetime': (1, 604800),
    'max_early_data': (1, 2 ** 64), 'ticket_count': (0, 2 ** 16 - 1), 'dc_valid_time': (None, 604800),
}
DC_FORBIDDEN = [(8, 4), (8, 5), (8, 6)]       # rsa_pss_rsae_sha256/384/512 (RFC 9345 section 4.1.1 / module comment)
TICKET_KEY_LEN = {'aes128gcm': 16, 'aes128ccm': 16, 'aes128ccm_8': 16, 'aes256gcm': 32, 'aes256ccm': 32,
                  'aes256ccm_8': 32, 'chacha20-poly1305': 32}


def is_str_list(v):
    return isinstance(v, (list, tuple)) and all(isinstance(e, str) for e in v)


def boolish(v):
    return isinstance(v, bool) or (is_int(v) and v in (0, 1))


def domain_violations(s):
    """(type_errors, value_errors): each a list of (dimension, detail).
    type_errors : an attribute (or an element) is not of the documented Python type - the property's
                  quantifier (configurations obtained from the defaults) does not reach these; they are
                  recorded, not judged.
    value_errors: right type, value outside the documented domain -> validate() must raise ValueError.
    Written from the class docstring, the module tables and the ValueError texts."""
    m = hsmod()
    terr, verr = [], []

    def tbad(dim, why):
        terr.append((dim, why))

    def bad(dim, why):
        verr.append((dim, why))
    for f, tab in NAME_FIELDS.items():
        v = getattr(s, f)
        if not is_str_list(v):
            tbad(f, 'not a list of str')
        elif any(e not in getattr(m, tab) for e in v):
            bad(f, 'unknown name')
    for f in ('cipherNames', 'cipherImplementations', 'certificateTypes'):
        v = getattr(s, f)
        if isinstance(v, (list, tuple)) and len(v) == 0:
            bad(f, 'empty')
    for f, (lo, hi) in INT_BOUNDS.items():
        v = getattr(s, f)
        if not is_int(v):
            tbad(f, 'not an int')
        elif (lo is not None and v < lo) or v > hi:
            bad(f, 'out of range')
    if is_int(s.minKeySize) and is_int(s.maxKeySize) and s.maxKeySize < s.minKeySize:
        bad('maxKeySize', 'smaller than minKeySize')
    okv = True
    for f in ('minVersion', 'maxVersion'):
        v = getattr(s, f)
        if not (isinstance(v, tuple) and len(v) == 2 and all(is_int(x) for x in v)):
            tbad(f, 'not a version tuple')
            okv = False
        elif v not in KNOWN_VERSIONS:
            bad(f, 'unknown version')
            okv = False
    if okv and s.minVersion > s.maxVersion:
        bad('minVersion', 'above maxVersion')
    # `versions` is not documented at all: no domain is asserted for it, only its type
    if not versions_typed(s):
        tbad('versions', 'not a list of version tuples')
    if not isinstance(s.defaultCurve, str):
        tbad('defaultCurve', 'not a str')
    elif s.defaultCurve not in m.ALL_CURVE_NAMES:
        bad('defaultCurve', 'unknown curve')
    if is_str_list(s.keyShares):
        if is_str_list(s.eccCurves) and is_str_list(s.dhGroups):
            if any(k not in s.eccCurves and k not in s.dhGroups for k in s.keyShares):
                bad('keyShares', 'share for a group that is not enabled')
        if any(k not in m.ALL_CURVE_NAMES and k not in m.ALL_DH_GROUP_NAMES for k in s.keyShares):
            bad('keyShares', 'unknown group')
    else:
        tbad('keyShares', 'not a list of str')
    if versions_typed(s) and (3, 4) in s.versions and (3, 3) not in s.versions \
            and is_str_list(s.eccCurves) and any(c not in m.TLS13_PERMITTED_GROUPS for c in s.eccCurves):
        bad('eccCurves', 'group not permitted in TLS 1.3')
    if okv and s.maxVersion >= (3, 3) and all(isinstance(getattr(s, f), (list, tuple)) and len(getattr(s, f)) == 0
                                               for f in ('rsaSigHashes', 'ecdsaSigHashes', 'dsaSigHashes', 'more_sig_schemes')):
        bad('sigAlgs', 'TLS 1.2 needs signature algorithms')
    if s.dhParams is not None:
        p = s.dhParams
        if not isinstance(p, tuple):
            tbad('dhParams', 'not a tuple')
        elif p and not (len(p) == 2 and all(isinstance(x, int) for x in p)):
            bad('dhParams', 'not a pair of integers')
    for f in FLAG_FIELDS:
        if not boolish(getattr(s, f)):
            tbad(f, 'not a bool')
    if boolish(s.requireExtendedMasterSecret) and boolish(s.useExtendedMasterSecret) and \
            s.requireExtendedMasterSecret and not s.useExtendedMasterSecret:
        bad('requireExtendedMasterSecret', 'needs useExtendedMasterSecret')
    for f in ('heartbeat_response_callback', 'padding_cb'):
        if getattr(s, f) is not None and not callable(getattr(s, f)):
            tbad(f, 'not callable')
    if callable(s.heartbeat_response_callback) and boolish(s.use_heartbeat_extension) and not s.use_heartbeat_extension:
        bad('heartbeat_response_callback', 'needs use_heartbeat_extension')
    r = s.record_size_limit
    if r is not None and not is_int(r):
        tbad('record_size_limit', 'not None or an int')
    elif r is not None and not 64 <= r <= 2 ** 14 + 1:
        bad('record_size_limit', 'not in 64..2**14+1')
    e = s.ec_point_formats
    if not (isinstance(e, (list, tuple)) and all(isinstance(x, int) for x in e)):
        tbad('ec_point_formats', 'not a list of int')
    elif any(x not in m.EC_POINT_FORMATS for x in e):
        bad('ec_point_formats', 'unknown format')
    elif m.ECPointFormat.uncompressed not in e:
        bad('ec_point_formats', 'uncompressed missing')
    d = s.dc_sig_algs
    if not (isinstance(d, (list, tuple)) and all(isinstance(x, tuple) for x in d)):
        tbad('dc_sig_algs', 'not a list of signature schemes')
    elif any(x in DC_FORBIDDEN for x in d):
        bad('dc_sig_algs', 'forbidden with delegated credentials')
    p = s.pskConfigs
    if not (isinstance(p, (list, tuple)) and all(isinstance(x, tuple) for x in p)):
        tbad('pskConfigs', 'not a list of tuples')
    else:
        if any(len(x) not in (2, 3) for x in p):
            bad('pskConfigs', 'not 2- or 3-element tuples')
        if any(len(x) == 3 and x[2] not in ('sha256', 'sha384') for x in p):
            bad('pskConfigs', 'bad hash')
    if not isinstance(s.ticketCipher, str):
        tbad('ticketCipher', 'not a str')
    elif s.ticketCipher not in m.TICKET_CIPHERS:
        bad('ticketCipher', 'unknown cipher')
    k = s.ticketKeys
    if not (isinstance(k, (list, tuple)) and all(isinstance(x, (bytes, bytearray)) for x in k)):
        tbad('ticketKeys', 'not a list of bytearrays')
    else:
        if any(len(x) not in (16, 32) for x in k):
            bad('ticketKeys', 'not 16 or 32 bytes')
        elif isinstance(s.ticketCipher, str) and s.ticketCipher in TICKET_KEY_LEN and \
                any(len(x) != TICKET_KEY_LEN[s.ticketCipher] for x in k):
            bad('ticketKeys', 'size does not fit ticketCipher')
    v = s.virtual_hosts
    if not (isinstance(v, (list, tuple)) and all(isinstance(x, m.VirtualHost) for x in v)):
        tbad('virtual_hosts', 'not a list of VirtualHost')
    elif any((not x.keys) or any((not kp.key) or (not kp.certificates) for kp in x.keys) for x in v):
        bad('virtual_hosts', 'host without keys / keypair incomplete')
    return terr, verr


def versions_typed(s):
    return isinstance(s.versions, (list, tuple)) and \
        all(isinstance(e, tuple) and len(e) == 2 and all(is_int(x) for x in e) for e in s.versions)


def something_supported(s, inst):
    """After dropping what the installation lacks, a cipher and a back-end remain (only meaningful for
    objects inside the documented domain)."""
    m = hsmod()
    from tlslite.utils import cipherfactory
    impls = [i for i in s.cipherImplementations if inst.get(i, False)]
    ciphers = [c for c in s.cipherNames if c != '3des' or cipherfactory.tripleDESPresent]
    del m
    return bool(impls) and bool(ciphers)


def unsupported_names(v, inst):
    """Names in a VALIDATED object that the running installation does not support."""
    m = hsmod()
    out = []
    for i in v.cipherImplementations:
        if not inst.get(i, False):
            out.append(('cipherImplementations', i))
    for f, tab in NAME_FIELDS.items():
        for e in getattr(v, f):
            if e not in getattr(m, tab):
                out.append((f, e))
    for a in v.certificate_compression_send:
        if a != 'zlib' and not inst.get(a + '_send', False):
            out.append(('certificate_compression_send', a))
    for a in v.certificate_compression_receive:
        if a != 'zlib' and not inst.get(a + '_receive', False):
            out.append(('certificate_compression_receive', a))
    if isinstance(v.maxVersion, tuple) and v.maxVersion < (3, 3):
        for e in v.macNames:
            if e not in ('sha', 'md5'):
                out.append(('macNames', e + ' (needs TLS 1.2)'))
    if isinstance(v.maxVersion, tuple) and isinstance(v.minVersion, tuple):
        for e in v.versions:
            if not min(v.minVersion, (3, 3)) <= e <= v.maxVersion:
                out.append(('versions', repr(e) + ' outside [min(minVersion, (3,3)), maxVersion]'))
    return out


# --------------------------------------------------------------------------------------------------
# generator
UNKNOWN = ['camellia256gcm', 'whirlpool', 'gost', 'NSS', 'openpgp', 'sha3', 'P-256', 'ffdhe1024', 'lz4', '']


def _sub(rng, xs):
    ys = [x for x in xs if rng.random() < 0.6]
    return ys


def mutate(rng, s, m):
    """One change of one dimension; returns a short label (dimension:kind)."""
    kinds = ['restrict', 'reorder', 'empty', 'unknown', 'extra', 'alias', 'badelem', 'int', 'version', 'versions',
             'flag', 'rsl', 'ticket', 'psk', 'dh', 'vhost', 'cb', 'dc', 'curve', 'shares', 'ecpf', 'impl', 'dup']
    k = rng.choice(kinds)
    namef = sorted(NAME_FIELDS)
    if k == 'restrict':
        f = rng.choice(namef + ['versions', 'keyShares'])
        setattr(s, f, _sub(rng, getattr(s, f)))
        return f + ':restrict'
    if k == 'reorder':
        f = rng.choice(namef + ['versions', 'keyShares'])
        v = list(getattr(s, f))
        rng.shuffle(v)
        setattr(s, f, v)
        return f + ':reorder'
    if k == 'empty':
        f = rng.choice(LIST_FIELDS)
        setattr(s, f, [])
        return f + ':empty'
    if k == 'unknown':
        f = rng.choice(namef + ['keyShares'])
        v = list(getattr(s, f))
        v.insert(rng.randrange(len(v) + 1), rng.choice(UNKNOWN))
        setattr(s, f, v)
        return f + ':unknown'
    if k == 'extra':
        f = rng.choice(namef)
        tab = getattr(m, NAME_FIELDS[f])
        v = list(getattr(s, f))
        v.insert(rng.randrange(len(v) + 1), rng.choice(tab))
        setattr(s, f, v)
        return f + ':extra'
    if k == 'dup':
        f = rng.choice(namef)
        v = list(getattr(s, f))
        if v:
            v.append(rng.choice(v))
        setattr(s, f, v)
        return f + ':dup'
    if k == 'alias':
        a, b = rng.sample(namef + ['keyShares'], 2)
        setattr(s, a, getattr(s, b))
        return a + ':alias'
    if k == 'badelem':
        f = rng.choice(LIST_FIELDS)
        v = list(getattr(s, f))
        v.insert(rng.randrange(len(v) + 1), rng.choice([0, 42, None, True, 'x', (3, 3), b'ab']))
        setattr(s, f, v)
        return f + ':badelem'
    if k == 'int':
        f = rng.choice(sorted(INT_BOUNDS))
        lo, hi = INT_BOUNDS[f]
        cands = [hi, hi + 1, hi - 1, 0, -1, 1, 2 ** 32, 1024, 2048, 4096]
        if lo is not None:
            cands += [lo, lo - 1, lo + 1]
        setattr(s, f, rng.choice(cands))
        return f + ':int'
    if k == 'version':
        f = rng.choice(['minVersion', 'maxVersion'])
        setattr(s, f, rng.choice(KNOWN_VERSIONS + KNOWN_VERSIONS + [(2, 0), (3, 5), (0, 0)]))
        return f + ':version'
    if k == 'versions':
        v = [x for x in rng.sample(KNOWN_VERSIONS + [(3, 5)], rng.randrange(0, 6))]
        s.versions = v
        return 'versions:set'
    if k == 'flag':
        f = rng.choice(FLAG_FIELDS)
        setattr(s, f, rng.choice([True, False, True, False, None, 0, 1, 2, -1, 'yes', '']))
        return f + ':flag'
    if k == 'rsl':
        s.record_size_limit = rng.choice([None, 63, 64, 65, 512, 2 ** 14, 2 ** 14 + 1, 2 ** 14 + 2, 0, -1])
        return 'record_size_limit:int'
    if k == 'ticket':
        if rng.random() < 0.5:
            s.ticketCipher = rng.choice(list(m.TICKET_CIPHERS) + ['aes-128-cbc', 'aes128', None, 5])
        s.ticketKeys = [bytearray(rng.choice([16, 32, 32, 16, 8, 0, 24, 33])) for _ in range(rng.randrange(0, 3))]
        if rng.random() < 0.1:
            s.ticketKeys.append(rng.choice([5, None, 'k' * 16]))
        return 'ticket:set'
    if k == 'psk':
        opts = [(b'id', b'secret'), (b'id', b'secret', 'sha256'), (b'id', b'secret', 'sha384'),
                (b'id', b'secret', 'sha1'), (b'id',), (b'a', b'b', 'sha256', b'c'), (b'id', b'secret', None), ()]
        s.pskConfigs = [rng.choice(opts[:3] if rng.random() < 0.6 else opts) for _ in range(rng.randrange(0, 3))]
        if rng.random() < 0.3:
            s.psk_modes = _sub(rng, list(m.PSK_MODES)) + (['psk_pqe_ke'] if rng.random() < 0.3 else [])
        return 'psk:set'
    if k == 'dh':
        s.dhParams = rng.choice([None, (), (2, 23), (2, 'bd'), (1, 2, 3), ('a', 2), (5,), (True, 7)])
        return 'dhParams:set'
    if k == 'vhost':
        hosts = []
        for _ in range(rng.randrange(0, 3)):
            h = m.VirtualHost()
            for _ in range(rng.randrange(0, 3)):
                h.keys.append(m.Keypair(key='k' if rng.random() < 0.8 else None,
                                        certificates=('c',) if rng.random() < 0.8 else ()))
            hosts.append(h)
        s.virtual_hosts = hosts
        return 'virtual_hosts:set'
    if k == 'cb':
        if rng.random() < 0.5:
            s.heartbeat_response_callback = rng.choice([None, _cb])
        else:
            s.padding_cb = rng.choice([None, _cb])
        return 'callback:set'
    if k == 'dc':
        if rng.random() < 0.7:
            s.dc_sig_algs = [rng.choice([(8, 4), (8, 5), (8, 6), (4, 3), (8, 7), (8, 9), (5, 3)])
                             for _ in range(rng.randrange(0, 3))]
        else:
            s.dc_valid_time = rng.choice([604800, 604801, 0, -1, 3600])
        return 'dc:set'
    if k == 'curve':
        s.defaultCurve = rng.choice(list(m.ALL_CURVE_NAMES) + ['ffdhe2048', 'P-256', None, 5])
        return 'defaultCurve:set'
    if k == 'shares':
        pool = list(m.ALL_CURVE_NAMES) + list(m.ALL_DH_GROUP_NAMES)
        s.keyShares = rng.sample(pool, rng.randrange(0, 4))
        return 'keyShares:set'
    if k == 'ecpf':
        s.ec_point_formats = rng.choice([[0], [1], [1, 0], [0, 1], [], [0, 2], [2], [0, 0]])
        return 'ec_point_formats:set'
    if k == 'impl':
        s.cipherImplementations = rng.choice([['openssl'], ['pycrypto'], ['python'], ['openssl', 'python'],
                                              ['python', 'openssl', 'pycrypto'], ['openssl', 'pycrypto'],
                                              ['python', 'python'], ['NSS', 'python']])
        return 'cipherImplementations:set'
    return 'none'


def _cb(*a, **k):
    return None


def gen_settings(rng, nmut=None):
    m = hsmod()
    s = m.HandshakeSettings()
    if nmut is None:
        nmut = rng.choice([0, 1, 1, 1, 2, 2, 3, 4, 6])
    labels = [mutate(rng, s, m) for _ in range(nmut)]
    return s, labels


# --------------------------------------------------------------------------------------------------
# deterministic probes derived from the generated tables
RELATED = [      # attributes whose tables are siblings: a name valid for one is the natural wrong value for another
    ['certificate_compression_send', 'certificate_compression_receive'],
    ['rsaSigHashes', 'dsaSigHashes', 'ecdsaSigHashes'],
    ['eccCurves', 'dhGroups'],
    ['rsaSchemes', 'more_sig_schemes'],
    ['cipherNames'], ['macNames'], ['keyExchangeNames'], ['cipherImplementations'], ['certificateTypes'], ['psk_modes'],
]
# names that exist in tlslite but may be absent from a table on this installation (optional packages, flags)
OPTIONAL_NAMES = {
    'certificate_compression_send': ['zlib', 'brotli', 'zstd'],
    'certificate_compression_receive': ['zlib', 'brotli', 'zstd'],
    'eccCurves': ['secp256r1mlkem768', 'x25519mlkem768', 'secp384r1mlkem1024', 'secp224r1', 'secp192r1'],
    'more_sig_schemes': ['mldsa87', 'mldsa65', 'mldsa44'],
    'cipherNames': ['chacha20-poly1305_draft00', 'aes128ccm_8', 'aes256ccm_8', 'rc4', 'null'],
    'macNames': ['md5'], 'rsaSigHashes': ['md5'], 'dsaSigHashes': ['md5'], 'ecdsaSigHashes': ['md5'],
}


def probe_cases():
    """(a) for every name attribute, every name that is valid for a SIBLING attribute or exists only with an
    optional package but is not in this attribute's table (symmetric difference of the generated tables):
    defaults + that name -> outside the documented domain;
    (b) for every name attribute and every name of its table: that name alone -> inside the domain, output must be
    supported by the installation (or the object rejected when nothing supported is left);
    (c) ticketCipher / defaultCurve over the union of the cipher / group tables."""
    m = hsmod()
    out = []

    def table(f):
        return list(getattr(m, NAME_FIELDS[f]))
    for grp in RELATED:
        pool = []
        for f in grp:
            for n in table(f) + OPTIONAL_NAMES.get(f, []):
                if n not in pool:
                    pool.append(n)
        for f in grp:
            for n in pool:
                if n not in table(f):
                    s = m.HandshakeSettings()
                    setattr(s, f, list(getattr(s, f)) + [n])
                    out.append((s, ['probe-cross:%s:%s' % (f, n)]))
                    s = m.HandshakeSettings()
                    setattr(s, f, [n])
                    if f in ('eccCurves', 'dhGroups'):
                        s.keyShares = []
                    out.append((s, ['probe-cross-alone:%s:%s' % (f, n)]))
    for f in sorted(NAME_FIELDS):
        for n in table(f):
            s = m.HandshakeSettings()
            setattr(s, f, [n])
            if f in ('eccCurves', 'dhGroups'):
                s.keyShares = [k for k in s.keyShares if k == n]
            out.append((s, ['probe-single:%s:%s' % (f, n)]))
    for n in list(m.ALL_CIPHER_NAMES) + list(m.TICKET_CIPHERS):
        s = m.HandshakeSettings()
        s.ticketCipher = n
        out.append((s, ['probe-scalar:ticketCipher:%s' % n]))
    for n in list(m.ALL_CURVE_NAMES) + list(m.ALL_DH_GROUP_NAMES) + OPTIONAL_NAMES['eccCurves']:
        s = m.HandshakeSettings()
        s.defaultCurve = n
        out.append((s, ['probe-scalar:defaultCurve:%s' % n]))
    for n in list(m.ALL_CURVE_NAMES) + list(m.ALL_DH_GROUP_NAMES):
        s = m.HandshakeSettings()
        s.keyShares = [n]
        out.append((s, ['probe-single:keyShares:%s' % n]))
    return out


# wrong-TYPE values (outside what the Coq model represents): examined on the implementation only
def wrongtype_cases():
    """Deterministic catalogue: (field, class label, value factory)."""
    m = hsmod()
    out = []
    for f in LIST_FIELDS:
        out += [(f, 'None', lambda: None), (f, 'int', lambda: 5), (f, 'str', lambda: 'abc'),
                (f, 'list-of-int', lambda: [1, 2]), (f, 'list-of-None', lambda: [None])]
    for f in sorted(INT_BOUNDS) + ['record_size_limit']:
        out += [(f, 'str', lambda: '1024'), (f, 'float', lambda: 1024.5), (f, 'list', lambda: [1024])]
        if f != 'record_size_limit':
            out.append((f, 'None', lambda: None))
    for f in ('minVersion', 'maxVersion'):
        out += [(f, 'None', lambda: None), (f, 'int', lambda: 3), (f, 'str', lambda: 'TLSv1.2'),
                (f, '1-tuple', lambda: (3,)), (f, 'list', lambda: [3, 3]), (f, 'float-tuple', lambda: (3, 3.5))]
    for f in FLAG_FIELDS:
        out += [(f, 'None', lambda: None), (f, 'str', lambda: 'yes'), (f, 'int2', lambda: 2), (f, 'list', lambda: [True])]
    for f in ('ticketCipher', 'defaultCurve'):
        out += [(f, 'None', lambda: None), (f, 'int', lambda: 7), (f, 'list', lambda: ['aes256gcm'])]
    out += [('dhParams', 'str', lambda: 'ab'), ('dhParams', 'int', lambda: 5), ('dhParams', 'list2', lambda: [2, 5]),
            ('heartbeat_response_callback', 'int', lambda: 5), ('padding_cb', 'int', lambda: 5)]
    del m
    return out
