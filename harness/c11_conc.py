"""C11 determinism under concurrency: RSAKey.decrypt must be a function of key and ciphertext also when one
key object is used from several threads (a server shares its key between connection threads).

The interleavings are forced deterministically.  The harness's OWN key object is instrumented:
  * its class is replaced by a subclass whose __getattribute__/__setattr__ report every access to the
    blinding pair (`blinder`, `unblinder`);
  * its `_lock` is wrapped by a proxy that reports when a thread has to wait for it.
A schedule says: "when thread T has made its i-th access to the blinding pair, start thread T' and let it run
until it finishes or has to wait for the key's lock".  In a correctly locked implementation every access
lies inside `with self._lock`, so the new thread always ends up waiting and nothing can interleave; any access
outside the lock lets a complete foreign decrypt() run in between.

Nothing in tlslite is patched; results are compared with the message that was encrypted (valid ciphertexts)
or with the property oracle (invalid ones), and with each other."""
import threading
import time


ACCESS_FIELDS = ('blinder', 'unblinder')


class LockProxy(object):
    def __init__(self, real, sched):
        self.real, self.sched = real, sched

    def acquire(self, *a, **kw):
        if a or kw:
            return self.real.acquire(*a, **kw)
        if not self.real.acquire(False):
            self.sched.note_blocked()
            self.real.acquire()
        return True

    def release(self):
        self.real.release()

    def __enter__(self):
        self.acquire()
        return self

    def __exit__(self, *a):
        self.real.release()


class Sched(object):
    """triggers: {thread name: (access index, name of the thread to start)}"""

    def __init__(self, key, cts, triggers):
        self.key, self.cts = key, cts
        self.triggers = dict(triggers)
        self.names = {}
        self.count = {}
        self.log = []
        self.res = {}
        self.done = {n: threading.Event() for n in cts}
        self.blocked = {n: threading.Event() for n in cts}
        self.threads = {}
        self.guard = threading.Lock()

    def me(self):
        return self.names.get(threading.get_ident())

    def note_blocked(self):
        t = self.me()
        if t is not None:
            self.log.append((t, 'waits-for-lock'))
            self.blocked[t].set()

    def access(self, kind, field):
        t = self.me()
        if t is None:
            return
        i = self.count.get(t, 0)
        self.count[t] = i + 1
        self.log.append((t, i, kind, field))
        trig = self.triggers.get(t)
        if trig is not None and trig[0] == i:
            del self.triggers[t]
            self.start(trig[1])
            other = trig[1]
            t_end = time.time() + 20
            while not (self.done[other].is_set() or self.blocked[other].is_set()):
                if time.time() > t_end:
                    self.log.append((other, 'scheduler-timeout'))
                    break
                time.sleep(0.0005)

    def body(self, name):
        self.names[threading.get_ident()] = name
        try:
            r = self.key.decrypt(bytearray(self.cts[name]))
            self.res[name] = None if r is None else bytes(r)
        except Exception as e:  # noqa
            self.res[name] = 'EXC:%s:%s' % (type(e).__name__, e)
        finally:
            self.log.append((name, 'finished'))
            self.done[name].set()

    def start(self, name):
        self.log.append((name, 'started'))
        th = threading.Thread(target=self.body, args=(name,))
        th.daemon = True
        self.threads[name] = th
        th.start()

    def run(self, first):
        self.body_main(first)
        while True:
            ths = list(self.threads.values())
            for th in ths:
                th.join(30)
            if len(self.threads) == len(ths):
                break
        return self.res

    def body_main(self, name):
        self.body(name)


def instrument(key, sched_ref):
    base = type(key)

    class Hooked(base):
        def __getattribute__(self, name):
            v = base.__getattribute__(self, name)
            if name in ACCESS_FIELDS and sched_ref[0] is not None:
                sched_ref[0].access('read', name)
            return v

        def __setattr__(self, name, value):
            base.__setattr__(self, name, value)
            if name in ACCESS_FIELDS and sched_ref[0] is not None:
                sched_ref[0].access('write', name)
    key.__class__ = Hooked
    return key


def fresh_key(src):
    """an independent key object with the same numbers"""
    from tlslite.utils.python_rsakey import Python_RSAKey
    return Python_RSAKey(int(src.n), int(src.e), int(src.d), int(src.p), int(src.q), int(src.dP), int(src.dQ),
                         int(src.qInv))


def run_schedule(src_key, cts, triggers, warm, probes):
    """cts: {'A': ct, 'B': ct, ...}; triggers as in Sched; warm: one decrypt before the schedule (blinding pair
    initialised); probes: ciphertexts decrypted sequentially afterwards on the same key object.
    Returns dict(res, probe_res, log)."""
    key = fresh_key(src_key)
    ref = [None]
    if warm:
        key.decrypt(bytearray(probes[0]))
    instrument(key, ref)
    sched = Sched(key, cts, triggers)
    key._lock = LockProxy(key._lock, sched)
    ref[0] = sched
    res = sched.run('A')
    ref[0] = None
    probe_res = []
    for ct in probes:
        try:
            r = key.decrypt(bytearray(ct))
            probe_res.append(None if r is None else bytes(r))
        except Exception as e:  # noqa
            probe_res.append('EXC:%s:%s' % (type(e).__name__, e))
    started = [n for n in cts if n in sched.res]
    return dict(res=dict(res), probe_res=probe_res, log=list(sched.log), started=started,
                untriggered=dict(sched.triggers))


def access_points(src_key, ct, warm, probe):
    """the accesses to the blinding pair made by one decrypt (for enumerating pre-emption points)"""
    out = run_schedule(src_key, {'A': ct}, {}, warm, [probe])
    return [e for e in out['log'] if len(e) == 4]


def free_running(src_key, cts, expected, nthreads, rounds):
    """no forced schedule: nthreads threads decrypt all ciphertexts `rounds` times on one key object with a
    tiny switch interval.  Returns list of (ciphertext index, result) that differ from `expected`."""
    import sys
    key = fresh_key(src_key)
    bad = []
    old = sys.getswitchinterval()
    sys.setswitchinterval(1e-6)

    def work(tid):
        for r in range(rounds):
            for i, ct in enumerate(cts):
                try:
                    x = key.decrypt(bytearray(ct))
                    x = None if x is None else bytes(x)
                except Exception as e:  # noqa
                    x = 'EXC:%s' % type(e).__name__
                if x != expected[i]:
                    bad.append((i, x))
    try:
        ths = [threading.Thread(target=work, args=(t,)) for t in range(nthreads)]
        for t in ths:
            t.daemon = True
            t.start()
        for t in ths:
            t.join(120)
    finally:
        sys.setswitchinterval(old)
    return bad
