"""C09 live stage: the exporter / master-secret calculations as the connection objects perform them, on full
and resumed connections (session ID, session ticket, TLS 1.3 PSK), both ends, compared with an independent
hashlib/hmac computation (c09_ref) fed with the hello randoms READ OFF THE WIRE.

What is taken from the implementation: the master secret / exporter master secret of the Session object (they are
checked to be equal at both ends; their derivation from the premaster secret is C09's calc_key part and C03/C13's
agreement part) and the negotiated version / PRF hash.  What is independent: the randoms (parsed from the captured
byte streams), the RFC 5705 / RFC 8446 7.5 computation."""
import os

import c09_ref as ref
from loop import Pair, creds, classify, settings
from tlslite.api import SessionCache
from tlslite.constants import CipherSuite

LABELS = [b'EXPORTER-c09', b'EXPORTER: a longer label with spaces']
LENGTHS = [20, 48, 100]


def wire_random(stream):
    """random of the first handshake message (ClientHello / ServerHello) of a captured byte stream:
    record header (5) + handshake header (4) + legacy_version (2), then 32 bytes"""
    if len(stream) < 43 or stream[0] != 22:
        return None
    return bytes(stream[11:43])


def exporter_ref(version, prf, session, cr, sr, label, n):
    if version == (3, 4):
        hl = 48 if prf == 'sha384' else 32
        import hashlib
        empty = hashlib.new(prf, b'').digest()
        secret = ref.hkdf_expand_label(bytes(session.exporterMasterSecret), label, empty, hl, prf)
        return ref.hkdf_expand_label(secret, b'exporter', empty, n, prf)
    if version in ((3, 1), (3, 2)):
        return ref.prf_tls10(bytes(session.masterSecret), label, cr + sr, n)
    return ref.prf_tls12(prf, bytes(session.masterSecret), label, cr + sr, n)


def connect(maxv, cipher, sess, cache, ticket_keys, alpn):
    p = Pair()
    cap_c, cap_s = [], []
    p.csock.tap = lambda n, b: (cap_c.append(bytes(b)), b)[1]
    p.ssock.tap = lambda n, b: (cap_s.append(bytes(b)), b)[1]
    cs = settings(minv=(3, 1), maxv=maxv, cipherNames=[cipher])
    ss = settings(minv=(3, 1), maxv=maxv, cipherNames=[cipher])
    if ticket_keys:
        ss.ticketKeys = list(ticket_keys)
        ss.ticket_count = 1
    else:
        ss.ticketKeys = []
        ss.ticket_count = 0
    chain, key = creds('rsa')
    ckw = dict(session=sess, settings=cs)
    skw = dict(certChain=chain, privateKey=key, settings=ss, sessionCache=cache)
    if alpn:
        ckw['alpn'] = [bytearray(b'c09proto')]
        skw['alpn'] = [bytearray(b'c09proto')]
    c, s = p.handshake(client_kw=ckw, server_kw=skw, client_kind='cert')
    return p, classify(c), classify(s), b''.join(cap_c), b''.join(cap_s)


def check_connection(S, ctx, p, cap_c, cap_s, tag):
    """compares both ends' exporter values with the reference; returns number of comparisons"""
    v = tuple(p.client.version)
    prf = 'sha384' if p.client.session.cipherSuite in CipherSuite.sha384PrfSuites else 'sha256'
    cr, sr = wire_random(cap_c), wire_random(cap_s)
    meta = dict(unit='live-exporter', scenario=tag, version=list(v), prf=prf, resumed=[bool(p.client.resumed), bool(p.server.resumed)],
                client_random_wire=cr.hex() if cr else None, server_random_wire=sr.hex() if sr else None,
                suite=p.client.session.cipherSuite)
    if cr is None or sr is None:
        S.bad('live:hello-not-captured', 'could not read the hello randoms off the wire', meta)
        return 0
    cs, ss_ = p.client.session, p.server.session
    sec_c = bytes(cs.exporterMasterSecret if v == (3, 4) else cs.masterSecret)
    sec_s = bytes(ss_.exporterMasterSecret if v == (3, 4) else ss_.masterSecret)
    if sec_c != sec_s or not sec_c:
        S.bad('live:master-secret-differs:%s' % tag, 'client and server Session objects hold different (exporter) master secrets', meta)
    n = 0
    for end_name, conn in (('client', p.client), ('server', p.server)):
        if v < (3, 4):
            got_r = (bytes(conn._clientRandom or b''), bytes(conn._serverRandom or b''))
            if got_r != (cr, sr):
                S.bad('live:randoms-not-recorded:%s:%s' % (tag, end_name),
                      'the %s connection object does not hold the hello randoms of THIS connection (client %s, server %s on the wire); '
                      'RFC 5705 exporter values are computed from them' % (end_name, cr.hex()[:16], sr.hex()[:16]),
                      dict(meta, end=end_name, recorded=[got_r[0].hex(), got_r[1].hex()]))
        for label in LABELS:
            for ln in LENGTHS:
                try:
                    got = bytes(conn.keyingMaterialExporter(bytearray(label), ln))
                except Exception as e:      # noqa
                    got = None
                    meta['exception'] = '%s: %s' % (type(e).__name__, e)
                want = exporter_ref(v, prf, conn.session, cr, sr, label, ln)
                n += 1
                ctx.count('live:exporter-vs-rfc5705', 1, [(tag, v, prf, end_name)])
                if got != want:
                    S.bad('exporter!=rfc5705:%s:%s' % (tag, end_name),
                          'keyingMaterialExporter on the %s end of a %s TLS %d.%d connection differs from the RFC 5705 / RFC 8446 7.5 value '
                          'computed from the hello randoms on the wire' % (end_name, tag, v[0], v[1]),
                          dict(meta, end=end_name, label=label.hex(), length=ln, impl=got.hex() if got else None, rfc=want.hex()))
                    break
    return n


def run_live(S, quick):
    ctx, rng = S.ctx, S.ctx.rng
    tkey = bytes(rng.getrandbits(8) for _ in range(32))
    scen = []
    # (max version, cipher, mechanism)
    for maxv in ((3, 1), (3, 2), (3, 3)):
        for mech in ('sessionid', 'ticket'):
            scen.append((maxv, 'aes128', mech))
    scen += [((3, 3), 'aes256gcm', 'sessionid'), ((3, 3), 'aes256gcm', 'ticket'), ((3, 3), 'aes128gcm', 'ticket'),
             ((3, 4), 'aes128gcm', 'psk'), ((3, 4), 'aes256gcm', 'psk'), ((3, 4), 'chacha20-poly1305', 'psk')]
    for maxv, cipher, mech in scen:
        for alpn in (False, True):
            if quick and alpn and not (maxv >= (3, 3) and cipher in ('aes128', 'aes128gcm')):
                continue
            cache = SessionCache() if mech == 'sessionid' else None
            keys = [tkey] if mech in ('ticket', 'psk') else None
            tag0 = 'full'
            p, c, s, cc, sc = connect(maxv, cipher, None, cache, keys, alpn)
            meta = dict(unit='live-exporter', maxv=list(maxv), cipher=cipher, mech=mech, alpn=alpn)
            if c[0] != 'ok' or s[0] != 'ok':
                S.bad('live:handshake-failed:%s' % mech, 'full handshake failed: %r %r' % (c, s), meta)
                continue
            p.transfer(p.server, p.client, b'pong')
            p.transfer(p.client, p.server, b'ping')
            check_connection(S, ctx, p, cc, sc, tag0)
            sess = p.client.session
            p.close_both()
            # resumed connection
            p2, c2, s2, cc2, sc2 = connect(maxv, cipher, sess, cache, keys, alpn)
            if c2[0] != 'ok' or s2[0] != 'ok':
                S.bad('live:resumption-failed:%s' % mech, 'resumption handshake failed: %r %r' % (c2, s2), meta)
                continue
            p2.transfer(p2.server, p2.client, b'pong2')
            p2.transfer(p2.client, p2.server, b'ping2')
            ctx.count('live:resumption', 1, [(mech, tuple(maxv), bool(p2.client.resumed), alpn)])
            if not (p2.client.resumed and p2.server.resumed):
                S.bad('live:not-resumed:%s' % mech, 'the second connection was expected to resume (%s) but did not' % mech,
                      dict(meta, resumed=[bool(p2.client.resumed), bool(p2.server.resumed)]))
            check_connection(S, ctx, p2, cc2, sc2, 'resumed-%s%s' % (mech, '+alpn' if alpn else ''))
            p2.close_both()
