"""C10: live handshakes (loop.Pair) with (a) a computation fault in the k-th private-key
operation of the signing endpoint's key object, (b) a peer that sends an invalid key share.
All functions are top-level so that they can run in a multiprocessing pool."""
import os
import sys

import loop
from loop import Pair, classify, settings


# ------------------------------------------------------------------------------------------
# flavours: (name, version, server cred, client cred or None, key exchange restriction, signer role, extra)
def flavours():
    out = []
    for ver in ((3, 1), (3, 2), (3, 3)):
        v = 'tls1%d' % (ver[1] - 1)
        for kx in ('dhe_rsa', 'ecdhe_rsa'):
            out.append(dict(name='%s-%s-ske' % (v, kx), ver=ver, srv='rsa', cli=None, kx=[kx], signer='server'))
        out.append(dict(name='%s-ecdsa-ske' % v, ver=ver, srv='ecdsa', cli=None, kx=None, signer='server'))
        out.append(dict(name='%s-dsa-ske' % v, ver=ver, srv='dsa', cli=None, kx=None, signer='server'))
        out.append(dict(name='%s-srp-rsa-ske' % v, ver=ver, srv='rsa', cli=None, kx=['srp_sha_rsa'], signer='server',
                        srp=True))
        for cli in ('client-rsa', 'client-ecdsa', 'client-dsa'):
            out.append(dict(name='%s-%s-cv' % (v, cli), ver=ver, srv='rsa', cli=cli, kx=['ecdhe_rsa'], signer='client'))
    for srv in ('rsapss', 'ecdsa384', 'ecdsa521', 'ed25519', 'ed448'):
        out.append(dict(name='tls12-%s-ske' % srv, ver=(3, 3), srv=srv, cli=None, kx=None, signer='server'))
    out.append(dict(name='tls12-rsa-pkcs1only-ske', ver=(3, 3), srv='rsa', cli=None, kx=['ecdhe_rsa'], signer='server',
                    s_settings=dict(rsaSchemes=['pkcs1'])))
    out.append(dict(name='tls12-rsa-static-kx', ver=(3, 3), srv='rsa', cli=None, kx=['rsa'], signer='server'))
    out.append(dict(name='tls12-client-ed25519-cv', ver=(3, 3), srv='rsa', cli='client-ed25519', kx=['ecdhe_rsa'],
                    signer='client'))
    for srv in ('rsa', 'rsapss', 'ecdsa', 'ecdsa384', 'ecdsa521', 'ed25519', 'ed448'):
        out.append(dict(name='tls13-%s-cv' % srv, ver=(3, 4), srv=srv, cli=None, kx=None, signer='server'))
    for cli in ('client-rsa', 'client-ecdsa', 'client-ed25519'):
        out.append(dict(name='tls13-%s-cv' % cli, ver=(3, 4), srv='ecdsa', cli=cli, kx=None, signer='client'))
        out.append(dict(name='tls13-%s-pha' % cli, ver=(3, 4), srv='ecdsa', cli=cli, kx=None, signer='client', pha=True))
    return out


class FaultyKey(object):
    """Instruments ONE key object: counts its private operations and makes the k-th one
    return a wrong value.  RSA: _rawPrivateKeyOp (result + 1 mod n).  ECDSA/EdDSA: the
    python-ecdsa signer is replaced for that call by one that corrupts one byte of r/s.
    DSA: the private exponent is wrong during that call.  Also records what sign()/hashAndSign()
    returned while the fault was active (the signature that must never be sent)."""

    def __init__(self, key, fault_at=None, fault_kind='plus1'):
        self.key = key
        self.fault_at = fault_at
        self.fault_kind = fault_kind
        self.n_ops = 0
        self.in_sign = 0
        self.ops = []             # ('sign'|'other') per private operation
        self.faulty_outputs = []  # signatures returned by sign()/hashAndSign() of a faulted call
        self.fault_hit = False
        self._cur_fault = False
        kt = getattr(key, 'key_type', None)
        self.kt = kt
        for name in ('sign', 'hashAndSign'):
            if hasattr(key, name):
                self._wrap_api(name)
        if kt in ('rsa', 'rsa-pss'):
            orig = key._rawPrivateKeyOp

            helper = key._rawPrivateKeyOpHelper

            def raw(m, _orig=orig):
                hit = self._tick()
                if hit and self.fault_kind == 'crt-half':
                    # Bellcore/Lenstra fault: only the mod-p half of the CRT computation is wrong
                    key._rawPrivateKeyOpHelper = lambda mm: (helper(mm) + key.q) % key.n
                try:
                    r = _orig(m)
                finally:
                    if hit and self.fault_kind == 'crt-half':
                        del key._rawPrivateKeyOpHelper
                if hit:
                    if self.fault_kind == 'plus1':
                        r = (r + 1) % key.n
                    elif self.fault_kind == 'zero':
                        r = 0
                    elif self.fault_kind == 'one':
                        r = 1
                    elif self.fault_kind == 'bitflip':
                        r = r ^ (1 << 77)
                return r
            key._rawPrivateKeyOp = raw
        elif kt == 'ecdsa':
            pk = key.private_key
            for name in ('sign_digest_deterministic', 'sign_deterministic'):
                self._wrap_signer(pk, name)
        elif kt in ('Ed25519', 'Ed448'):
            self._wrap_signer(key.private_key, 'sign_deterministic')
        elif kt == 'dsa':
            pass            # handled in _wrap_api (the arithmetic is inline in Python_DSAKey.sign)

    def _tick(self):
        k = self.n_ops
        self.n_ops += 1
        self.ops.append('sign' if self.in_sign else 'other')
        if self.fault_at is not None and k == self.fault_at:
            self.fault_hit = True
            self._cur_fault = True
            return True
        return False

    def _wrap_signer(self, pk, name):
        orig = getattr(pk, name)

        def f(*a, **kw):
            r = orig(*a, **kw)
            if self._tick():
                r = bytearray(r)
                r[-1] ^= 0x01          # last byte of s (DER) / of S (EdDSA)
                r = bytes(r)
            return r
        setattr(pk, name, f)

    def _wrap_api(self, name):
        orig = getattr(self.key, name)

        def f(*a, **kw):
            self.in_sign += 1
            dsa_fault = False
            try:
                if self.kt == 'dsa' and name == 'sign':
                    dsa_fault = self._tick()
                    if dsa_fault:
                        saved = self.key.private_key
                        self.key.private_key = saved ^ 2
                r = orig(*a, **kw)
            finally:
                self.in_sign -= 1
                if dsa_fault:
                    self.key.private_key = saved
            if self.in_sign == 0 and self._cur_fault:
                self.faulty_outputs.append(bytes(r))
                self._cur_fault = False
            return r
        setattr(self.key, name, f)


def _mk(fl, fault_at, seed, fault_kind='plus1'):
    rnd = loop.DetRandom(seed).install()
    p = Pair()
    schain, skey = loop.load_chain(loop.CRED_FILES[fl['srv']][0]), loop.load_key(loop.CRED_FILES[fl['srv']][1])
    # a TLS 1.3-only client with the default curve list (brainpool ...) is refused by the server
    # ("group forbidden in TLS 1.3"): offer 1.2 as well, 1.3 is negotiated
    minv = (3, 3) if fl['ver'] == (3, 4) else fl['ver']
    ss = settings(minv=minv, maxv=fl['ver'], **fl.get('s_settings', {}))
    cs = settings(minv=minv, maxv=fl['ver'], **fl.get('c_settings', {}))
    if fl.get('kx'):
        ss.keyExchangeNames = list(fl['kx'])
        cs.keyExchangeNames = list(fl['kx'])
    skw = dict(certChain=schain, privateKey=skey, settings=ss)
    ckw = dict(settings=cs)
    ckey = None
    if fl.get('cli'):
        cchain, ckey = loop.load_chain(loop.CRED_FILES[fl['cli']][0]), loop.load_key(loop.CRED_FILES[fl['cli']][1])
        ckw.update(certChain=cchain, privateKey=ckey)
        if not fl.get('pha'):
            skw['reqCert'] = True
    kind = 'cert'
    if fl.get('srp'):
        skw['verifierDB'] = loop.make_verifier_db(bits=1024)
        ckw = dict(username=bytearray(b'test'), password=bytearray(b'password'), settings=cs)
        kind = 'srp'
    fk = FaultyKey(skey if fl['signer'] == 'server' else ckey, fault_at, fault_kind)
    return rnd, p, skw, ckw, kind, fk, (cchain, ckey) if fl.get('cli') else None


def run_fault_case(args):
    """One live handshake of flavour `fl` with the fault at private operation `fault_at`
    (None = baseline).  Returns a plain dict."""
    fl, fault_at, seed = args[:3]
    fault_kind = args[3] if len(args) > 3 else 'plus1'
    rnd = None
    try:
        rnd, p, skw, ckw, kind, fk, ccred = _mk(fl, fault_at, seed, fault_kind)
        signer_sock = p.ssock if fl['signer'] == 'server' else p.csock
        if fl.get('pha'):
            c, s = p.handshake(client_kw=ckw, server_kw=skw, client_kind=kind)
            if classify(c) != ('ok',) or classify(s) != ('ok',) or fk.n_ops:
                return dict(name=fl['name'], fault_at=fault_at, signer=classify(c), peer=classify(s), n_ops=fk.n_ops,
                            ops=fk.ops, fault_hit=fk.fault_hit, faulty=[x.hex() for x in fk.faulty_outputs],
                            wire_hit=False, error='PHA set-up handshake failed or used the client key')
            # post-handshake authentication: server requests, client answers while reading
            mark = len(signer_sock.sent_log)
            out = loop.drive([p.server.request_post_handshake_auth()], max_steps=20000)
            w1, r1, got1 = p.transfer(p.server, p.client, b'x')
            c = classify(r1)
            if c == ('ok',):
                w2, r2, got2 = p.transfer(p.client, p.server, b'y')
                s = classify(r2)
                if s == ('ok',) and not p.server.session.clientCertChain:
                    s = ('Other', 'NoClientCert', 'PHA finished without a client certificate')
            else:
                # let the server see what the client sent (alert)
                def sreader():
                    for r in p.server.readAsync(max=10, min=1):
                        if r in (0, 1) and not isinstance(r, (bytes, bytearray)):
                            yield r
                        else:
                            return
                s = classify(loop.drive([sreader()], max_steps=20000)[0])
        else:
            mark = 0
            co, so = p.handshake(client_kw=ckw, server_kw=skw, client_kind=kind)
            c, s = classify(co), classify(so)
        wire = b''.join(signer_sock.sent_log[mark:])
        wire_hit = any(f and f in wire for f in fk.faulty_outputs)
        signer, peer = (s, c) if fl['signer'] == 'server' else (c, s)
        return dict(name=fl['name'], fault_at=fault_at, fault_kind=fault_kind, key_type=fk.kt,
                    signer=signer, peer=peer, n_ops=fk.n_ops, ops=fk.ops,
                    fault_hit=fk.fault_hit, faulty=[x.hex() for x in fk.faulty_outputs], wire_hit=wire_hit)
    except Exception as e:  # noqa
        import traceback
        return dict(name=fl['name'], fault_at=fault_at, error='%s: %s' % (type(e).__name__, e),
                    tb=traceback.format_exc()[-1500:])
    finally:
        if rnd is not None:
            rnd.uninstall()


def judge_fault(r):
    """The property, directly: with a fault in a signing operation no faulty signature is sent, the
    signer stops with internal_error, the honest peer never sees a bad signature.
    Returns (verdict, reason): verdict in 'ok' | 'violation' | 'note' | 'skip'."""
    if 'error' in r:
        return 'skip', 'harness error: ' + r['error']
    if r['fault_at'] is None:
        if r['signer'] != ('ok',) or r['peer'] != ('ok',):
            return 'skip', 'baseline handshake does not complete: %s %s' % (r['signer'], r['peer'])
        return 'ok', 'baseline'
    if not r['fault_hit']:
        return 'skip', 'fault index beyond the operations performed'
    kind = r['ops'][r['fault_at']]
    if kind != 'sign':
        return 'ok', 'fault in a non-signing private operation (decryption): out of scope here (C11)'
    if r['wire_hit']:
        return 'violation', 'the faulty signature appears in the bytes sent by the signer'
    if r['peer'] == ('LocalAlert', 51) or r['peer'] == ('ok',) or r['signer'] == ('ok',) or \
            (r['peer'][0] in ('Other', 'TLSError', 'AuthError') and 'Decrypt' in str(r['peer'][1])):
        return 'violation', 'signer=%s peer=%s: the peer received a signature made by a faulted operation' % (
            r['signer'], r['peer'])
    if r['signer'] == ('LocalAlert', 80):
        return 'ok', 'internal_error'
    if r['signer'][0] == 'TLSError' and r['signer'][1] == 'TLSInternalError':
        return 'note', 'TLSInternalError raised without an alert'
    return 'violation', 'signer ended with %s instead of internal_error (peer %s)' % (r['signer'], r['peer'])


# ------------------------------------------------------------------------------------------
# invalid key shares from the peer in live handshakes
def run_share_case(args):
    """The *peer* (client or server, wrapped in the harness) replaces its key share by `bad`.
    The endpoint under test must refuse: no completed handshake."""
    ver, group, role_under_test, cls, bad, seed = args
    rnd = loop.DetRandom(seed).install()
    try:
        from tlslite.messages import ClientKeyExchange, ServerKeyExchange, ClientHello, ServerHello
        from tlslite.constants import GroupName, ExtensionType
        p = Pair()
        schain, skey = loop.creds('rsa')
        ss = settings(minv=ver, maxv=ver)
        cs = settings(minv=ver, maxv=ver)
        ff = group.startswith('ffdhe')
        if ver < (3, 4):
            kx = ['dhe_rsa'] if ff else ['ecdhe_rsa']
            ss.keyExchangeNames = kx
            cs.keyExchangeNames = kx
        if ff:
            ss.dhGroups = [group]
            cs.dhGroups = [group]
            cs.eccCurves = []
            ss.eccCurves = []
        else:
            ss.eccCurves = [group]
            cs.eccCurves = [group]
            ss.dhGroups = []
            cs.dhGroups = []
        cs.keyShares = [group]
        ss.keyShares = [group]
        peer = p.client if role_under_test == 'server' else p.server
        orig = peer._sendMsg
        hit = {'n': 0}

        def patched(msg, *a, **kw):
            if ver < (3, 4):
                if isinstance(msg, ClientKeyExchange) and role_under_test == 'server':
                    if ff:
                        msg.dh_Yc = bad
                    else:
                        msg.ecdh_Yc = bytearray(bad)
                    hit['n'] += 1
            else:
                if isinstance(msg, ClientHello) and role_under_test == 'server':
                    ks = msg.getExtension(ExtensionType.key_share)
                    if ks and ks.client_shares:
                        ks.client_shares[0].key_exchange = bytearray(bad)
                        hit['n'] += 1
                if isinstance(msg, ServerHello) and role_under_test == 'client':
                    ks = msg.getExtension(ExtensionType.key_share)
                    if ks and ks.server_share:
                        ks.server_share.key_exchange = bytearray(bad)
                        hit['n'] += 1
            return orig(msg, *a, **kw)
        peer._sendMsg = patched
        if ver < (3, 4) and role_under_test == 'client':
            # TLS <= 1.2 server share lives in the (signed) ServerKeyExchange: replace it before signing
            ke_cls = None
            import tlslite.keyexchange as kemod
            target = kemod.ADHKeyExchange if ff else kemod.AECDHKeyExchange
            orig_mk = target.makeServerKeyExchange

            def mk(self, *a, **kw):
                ske = orig_mk(self, *a, **kw)
                if ff:
                    ske.dh_Ys = bad
                else:
                    ske.ecdh_Ys = bytearray(bad)
                hit['n'] += 1
                return ske
            target.makeServerKeyExchange = mk
        try:
            c, s = p.handshake(client_kw=dict(settings=cs), server_kw=dict(certChain=schain, privateKey=skey, settings=ss))
        finally:
            if ver < (3, 4) and role_under_test == 'client':
                target.makeServerKeyExchange = orig_mk
        c, s = classify(c), classify(s)
        return dict(ver=ver, group=group, role=role_under_test, cls=cls, client=c, server=s, injected=hit['n'])
    except Exception as e:  # noqa
        import traceback
        return dict(ver=ver, group=group, role=role_under_test, cls=cls, error='%s: %s' % (type(e).__name__, e),
                    tb=traceback.format_exc()[-1200:])
    finally:
        rnd.uninstall()
