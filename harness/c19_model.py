"""C19 helpers: encoding of HandshakeSettings objects for the Coq model (by-reference heap),
deep snapshots (identity AND content of every attribute), the case generator, and the direct
oracles written from the property text (purity, idempotence, supportedness, documented domains)."""
import copy

import vlib
from vlib import zlit, boollit, strlit, listlit, optlit

# order = indices F_* of coq/Model/C19_Settings.v
LIST_FIELDS = ['cipherNames', 'macNames', 'keyExchangeNames', 'cipherImplementations', 'versions',
               'ec_point_formats', 'ticketKeys', 'certificate_compression_send',
               'certificate_compression_receive', 'dc_sig_algs', 'certificateTypes', 'rsaSigHashes',
               'rsaSchemes', 'dsaSigHashes', 'ecdsaSigHashes', 'more_sig_schemes', 'virtual_hosts',
               'eccCurves', 'dhGroups', 'keyShares', 'pskConfigs', 'psk_modes']
SCALAR_FIELDS = ['minVersion', 'maxVersion', 'useExtendedMasterSecret', 'requireExtendedMasterSecret',
                 'useExperimentalTackExtension', 'sendFallbackSCSV', 'useEncryptThenMAC',
                 'usePaddingExtension', 'padding_cb', 'ticketCipher', 'ticketLifetime', 'max_early_data',
                 'ticket_count', 'record_size_limit', 'dc_valid_time', 'minKeySize', 'maxKeySize',
                 'dhParams', 'defaultCurve', 'use_heartbeat_extension', 'heartbeat_response_callback']
ALL_FIELDS = LIST_FIELDS + SCALAR_FIELDS
FLAG_FIELDS = ['useExtendedMasterSecret', 'requireExtendedMasterSecret', 'useExperimentalTackExtension',
               'sendFallbackSCSV', 'useEncryptThenMAC', 'usePaddingExtension', 'use_heartbeat_extension']
INT_FIELDS = ['ticketLifetime', 'max_early_data', 'ticket_count', 'dc_valid_time', 'minKeySize', 'maxKeySize']
# the order in which validate() (and the model) creates new list objects
ALLOC_ORDER = ['versions', 'macNames', 'cipherImplementations', 'cipherNames']
EXC = {'IndexError': 1, 'ValueError': 2, 'AssertionError': 3, 'AttributeError': 4, 'TypeError': 5, 'KeyError': 6}


class Unrepresentable(Exception):
    pass


def is_int(x):
    return isinstance(x, int) and not isinstance(x, bool)


def ascii_ok(s):
    return all(32 <= ord(ch) < 127 for ch in s)


def val_lit(x):
    """A Python value inside a settings list / flag -> Gallina `val` literal."""
    from tlslite.handshakesettings import VirtualHost
    if isinstance(x, bool):
        return '(VBool %s)' % boollit(x)
    if isinstance(x, int):
        return '(VInt %s)' % zlit(x)
    if x is None:
        return 'VNone'
    if isinstance(x, str):
        if not ascii_ok(x):
            raise Unrepresentable('non-ascii str')
        return '(VStr %s)' % strlit(x)
    if isinstance(x, (bytes, bytearray)):
        return '(VBytes %s)' % vlib.blit(x)
    if isinstance(x, VirtualHost):
        if not isinstance(x.keys, list):
            raise Unrepresentable('vhost keys')
        return '(VHost %s)' % listlit(x.keys, lambda k: '(%s, %s)' % (boollit(bool(k.key)), boollit(bool(k.certificates))))
    if isinstance(x, tuple):
        if len(x) == 2 and all(is_int(e) for e in x):
            return '(VPair %s %s)' % (zlit(x[0]), zlit(x[1]))
        if all(isinstance(e, (bytes, bytearray)) for e in x[:2]):
            if len(x) < 3:
                return '(VPsk %d None)' % len(x)
            if isinstance(x[2], str) and ascii_ok(x[2]):
                return '(VPsk %d (Some %s))' % (len(x), strlit(x[2]))
            if x[2] is None:
                return '(VPsk %d None)' % len(x)
        raise Unrepresentable('tuple %r' % (x,))
    raise Unrepresentable(type(x).__name__)


def scalar_lit(name, v):
    if name in ('minVersion', 'maxVersion'):
        if not (isinstance(v, tuple) and len(v) == 2 and all(is_int(e) for e in v)):
            raise Unrepresentable(name)
        return '(%s, %s)' % (zlit(v[0]), zlit(v[1]))
    if name in FLAG_FIELDS or name in ('ticketCipher', 'defaultCurve'):
        if not (v is None or isinstance(v, (bool, int, str))):
            raise Unrepresentable(name)
        return val_lit(v)
    if name in INT_FIELDS:
        if not is_int(v):
            raise Unrepresentable(name)
        return zlit(v)
    if name == 'record_size_limit':
        if not (v is None or is_int(v)):
            raise Unrepresentable(name)
        return optlit(v, zlit)
    if name == 'dhParams':
        if v is None:
            return 'None'
        if not isinstance(v, tuple):
            raise Unrepresentable(name)
        return '(Some %s)' % listlit(v, val_lit)
    if name in ('padding_cb', 'heartbeat_response_callback'):
        if not (v is None or callable(v)):
            raise Unrepresentable(name)
        return boollit(v is not None)
    raise Unrepresentable(name)


def scalars_lit(s):
    return '{| ' + '; '.join('%s := %s' % (n, scalar_lit(n, getattr(s, n))) for n in SCALAR_FIELDS) + ' |}'


# ------------------------------------------------------------------------------------------------
def canon(x):
    """Canonical, comparable, JSON-able description of a value (content, not identity)."""
    from tlslite.handshakesettings import VirtualHost, Keypair
    if isinstance(x, (bool, int, float, str)) or x is None:
        return [type(x).__name__, x]
    if isinstance(x, (bytes, bytearray)):
        return [type(x).__name__, bytes(x).hex()]
    if isinstance(x, (list, tuple)):
        return [type(x).__name__, [canon(e) for e in x]]
    if isinstance(x, (set, frozenset)):
        return [type(x).__name__, sorted(repr(canon(e)) for e in x)]
    if isinstance(x, VirtualHost):
        return ['VirtualHost', [canon(k) for k in x.keys] if isinstance(x.keys, list) else repr(x.keys)]
    if isinstance(x, Keypair):
        return ['Keypair', bool(x.key), bool(x.certificates)]
    if callable(x):
        return ['callable', getattr(x, '__name__', '?')]
    return ['object', type(x).__name__]


def snapshot(s):
    """Identity and content of every attribute (the observation point named in the property)."""
    d = vars(s)
    return {'attrs': sorted(d), 'id': {k: id(v) for k, v in d.items()},
            'content': {k: canon(v) for k, v in d.items()}}


def snap_diff(a, b):
    """Names of attributes whose identity or content differ between two snapshots of the same object."""
    out = []
    if a['attrs'] != b['attrs']:
        out.append('attribute-set')
    for k in a['attrs']:
        if k in b['id']:
            if a['id'][k] != b['id'][k]:
                out.append(k + ':rebound')
            if a['content'][k] != b['content'][k]:
                out.append(k + ':content')
    return out


def representable(s):
    try:
        if sorted(vars(s)) != sorted(ALL_FIELDS):
            return False
        for f in LIST_FIELDS:
            v = getattr(s, f)
            if type(v) is not list:
                return False
            for e in v:
                val_lit(e)
        scalars_lit(s)
        return True
    except Unrepresentable:
        return False


class Numbering(object):
    """Numbers distinct list objects in the order they are met (= model locations)."""

    def __init__(self):
        self.ids = {}
        self.objs = []

    def loc(self, obj):
        if id(obj) not in self.ids:
            self.ids[id(obj)] = len(self.objs)
            self.objs.append(obj)
        return self.ids[id(obj)]

    def heap_lit(self):
        return listlit(self.objs, lambda l: listlit(l, val_lit))


def observe(s):
    """Run validate() on s; return (obs literal for Coq, outcome dict).  s must be representable."""
    num = Numbering()
    locs0 = [num.loc(getattr(s, f)) for f in LIST_FIELDS]
    heap0 = num.heap_lit()
    sc0 = scalars_lit(s)
    n0 = len(num.objs)
    try:
        r = s.validate()
        exc = None
    except Exception as e:  # noqa
        r, exc = None, e
    if exc is None:
        if not representable(r):
            raise Unrepresentable('result')
        for f in ALLOC_ORDER + LIST_FIELDS:
            num.loc(getattr(r, f))
        res = '(Some %s)' % listlit([num.loc(getattr(r, f)) for f in LIST_FIELDS], lambda n: '%d%%nat' % n)
        code = 0
        # the scalars of the result must be those of the receiver (compared inside Coq against obs_self)
        sc_same = scalars_lit(r) == sc0
    else:
        res = 'None'
        code = EXC.get(type(exc).__name__, 100)
        del num.objs[n0:]
        sc_same = True
    try:
        heap1 = num.heap_lit()
    except Unrepresentable:
        raise
    lit = ('{| obs_heap0 := %s; obs_self := {| locs := %s; sc := %s |}; obs_heap1 := %s; obs_res := %s; obs_code := %d |}'
           % (heap0, listlit(locs0, lambda n: '%d%%nat' % n), sc0, heap1, res, code))
    return lit, {'exc': type(exc).__name__ if exc else None, 'result': r, 'scalars_same': sc_same}


def settings_lit(s):
    """(heap, settings) literal of a representable object, for the domain / compatibility predicates."""
    num = Numbering()
    locs0 = [num.loc(getattr(s, f)) for f in LIST_FIELDS]
    return '(%s, {| locs := %s; sc := %s |})' % (num.heap_lit(), listlit(locs0, lambda n: '%d%%nat' % n), scalars_lit(s))


def describe(s):
    """JSON-able description of a settings object sufficient to rebuild it (see rebuild)."""
    out = {}
    ids = {}
    for k, v in sorted(vars(s).items()):
        ent = {'v': canon(v)}
        if isinstance(v, list):
            if id(v) in ids:
                ent['alias_of'] = ids[id(v)]
            else:
                ids[id(v)] = k
        out[k] = ent
    return out


def decanon(c):
    from tlslite.handshakesettings import VirtualHost, Keypair
    t, v = c[0], c[1] if len(c) > 1 else None
    if t in ('bool', 'int', 'float', 'str', 'NoneType'):
        return v
    if t == 'bytes':
        return bytes.fromhex(v)
    if t == 'bytearray':
        return bytearray.fromhex(v)
    if t == 'list':
        return [decanon(e) for e in v]
    if t == 'tuple':
        return tuple(decanon(e) for e in v)
    if t == 'VirtualHost':
        h = VirtualHost()
        h.keys = [decanon(k) for k in v]
        return h
    if t == 'Keypair':
        return Keypair(key='key' if c[1] else None, certificates=('cert',) if c[2] else ())
    if t == 'callable':
        return lambda *a, **k: None
    if t in ('set', 'frozenset'):
        return set()
    return object()


def rebuild(desc):
    from tlslite.handshakesettings import HandshakeSettings
    s = HandshakeSettings()
    for k, ent in desc.items():
        setattr(s, k, decanon(ent['v']))
    for k, ent in desc.items():
        if 'alias_of' in ent:
            setattr(s, k, getattr(s, ent['alias_of']))
    return s
