"""./check Cxx [--tier quick|thorough] [--replay file]"""
import argparse
import importlib
import os
import sys
import traceback

sys.path.insert(0, os.path.dirname(os.path.abspath(__file__)))
import vlib  # noqa: E402


def main():
    ap = argparse.ArgumentParser()
    ap.add_argument('pid')
    ap.add_argument('--tier', default=os.environ.get('VERIF_TIER', 'quick'))
    ap.add_argument('--replay', default=None)
    a = ap.parse_args()
    tier = a.tier if a.tier in ('quick', 'thorough') else 'quick'
    try:
        seed = int(os.environ.get('VERIF_SEED', '1'))
    except ValueError:
        seed = 1
    os.environ.pop('TLSLITE_NG_VERIF', None)
    mod = importlib.import_module('props.' + a.pid)
    ctx = vlib.Ctx(a.pid, tier, seed, level=getattr(mod, 'LEVEL', 'proof'))
    if a.replay:
        rc = mod.replay(ctx, a.replay)
        sys.exit(rc)
    try:
        mod.run(ctx)
    except Exception:
        tb = traceback.format_exc()
        print(tb)
        ctx.violation('harness-exception', 'the check itself failed (tie broken): ' + tb.splitlines()[-1],
                      {'traceback': tb}, found_input=False)
    sys.exit(ctx.finish())


if __name__ == '__main__':
    main()
