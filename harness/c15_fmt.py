"""C15: Python mirror of the format language of coq/Model/C15_Fmt.v.

Used (a) to generate values and framing perturbations (the encoder records where every
length field is and what it spans), (b) as the property's own executable oracle for
"which byte strings must a strict parser accept" -- written from the format tables,
never calling tlslite -- so that the failing-input search works without Coq, and
(c) to print Gallina literals.  Agreement with the Coq definitions is checked on every
run (both are evaluated on all cases).

formats : ('U',n) ('Const',n,c) ('Fix',n) ('Rest',lo,hi|None) ('Seq',f,g)
          ('Bounded',ll,f) ('Rep',f) ('Opt',f) ('Tag',n,selector)     selector: int -> fmt
          ('Check',name,f)  f restricted to values satisfying PRED[name] (same predicate as Coq's FCheck)
values  : int | bytes | (a,b) | [v,...] | None / Some(v) | Tagged(t,v)
"""


class Reject(Exception):
    """the strict decoder's DecodeError"""


class NoFit(Exception):
    """the encoder's ValueError: a field does not fit"""


class Some(object):
    __slots__ = ('v',)

    def __init__(self, v):
        self.v = v

    def __eq__(self, o):
        return isinstance(o, Some) and self.v == o.v

    def __ne__(self, o):
        return not self == o

    def __repr__(self):
        return 'Some(%r)' % (self.v,)


class Tagged(object):
    __slots__ = ('t', 'v')

    def __init__(self, t, v):
        self.t, self.v = t, v

    def __eq__(self, o):
        return isinstance(o, Tagged) and self.t == o.t and self.v == o.v

    def __ne__(self, o):
        return not self == o

    def __repr__(self):
        return 'Tagged(%r,%r)' % (self.t, self.v)


# ---- constructors mirroring the Coq derived forms -------------------------------
def U(n): return ('U', n)
def Const(n, c): return ('Const', n, c)
def Fix(n): return ('Fix', n)
def Rest(lo=0, hi=None): return ('Rest', lo, hi)
def Seq(f, g): return ('Seq', f, g)
def Bounded(ll, f): return ('Bounded', ll, f)
def Rep(f): return ('Rep', f)
def Opt(f): return ('Opt', f)
def Tag(n, sel): return ('Tag', n, sel)


def Check(name, f): return ('Check', name, f)


def uniq_tags(v):
    """Coq: uniq_tags -- no two elements of the list carry the same tag"""
    ts = [e.t for e in v if isinstance(e, Tagged)]
    return len(set(ts)) == len(ts)


def fix_uniq_tags(v):
    seen, out = set(), []
    for e in v:
        if not isinstance(e, Tagged) or e.t not in seen:
            out.append(e)
            if isinstance(e, Tagged):
                seen.add(e.t)
    return out


PRED = {'uniq_tags': uniq_tags}          # the domain predicates (mirrors of Model/C15_Fmt.v)
REPAIR = {'uniq_tags': fix_uniq_tags}    # how the generator brings a drawn value into the domain


BYTES = Rest(0, None)
EMPTY = Fix(0)
FAIL = Const(0, 1)


def Var(ll): return Bounded(ll, Rest(0, None))
def VarR(ll, lo, hi): return Bounded(ll, Rest(lo, hi))
def VarList(el, ll): return Bounded(ll, Rep(U(el)))


def Tuple(el, k):
    if k == 0:
        return Fix(0)
    if k == 1:
        return U(el)
    return Seq(U(el), Tuple(el, k - 1))


def VarTuples(el, k, ll): return Bounded(ll, Rep(Tuple(el, k)))
def List(ll, f): return Bounded(ll, Rep(f))


def fseq(fs):
    if not fs:
        return EMPTY
    if len(fs) == 1:
        return fs[0]
    return Seq(fs[0], fseq(fs[1:]))


def Msg(ty, body): return Seq(Const(1, ty), Bounded(3, body))


def sel_of(table, default):
    d = dict(reversed(table))        # first entry wins, as in Coq's sel_of

    def sel(t):
        return d.get(t, default)
    return sel


# ---- values of an fseq as flat python lists -------------------------------------
def tup(vs):
    """[a,b,c] -> (a,(b,c)) : the value of fseq [fa;fb;fc]"""
    if len(vs) == 1:
        return vs[0]
    return (vs[0], tup(vs[1:]))


def untup(v, n):
    out = []
    for _ in range(n - 1):
        out.append(v[0])
        v = v[1]
    out.append(v)
    return out


# ---- encoder ---------------------------------------------------------------------
class Marks(object):
    """length and tag fields seen while encoding: (offset, width, body_start, body_end, site, 'len'|'tag')"""

    def __init__(self):
        self.fields = []
        self.stack = []        # labelled tags being encoded (extension type ...)


def be(x, n):
    if n < 0 or x < 0 or x >= 256 ** n:
        raise NoFit('%d does not fit %d bytes' % (x, n))
    return x.to_bytes(n, 'big')


def enc(f, v, marks=None, base=0):
    k = f[0]
    if k == 'U':
        if not isinstance(v, int):
            raise NoFit('shape')
        return be(v, f[1])
    if k == 'Const':
        if not isinstance(v, int) or v != f[2]:
            raise NoFit('const')
        return be(v, f[1])
    if k == 'Fix':
        if not isinstance(v, (bytes, bytearray)) or len(v) != f[1]:
            raise NoFit('fix')
        return bytes(v)
    if k == 'Rest':
        if not isinstance(v, (bytes, bytearray)) or len(v) < f[1] or (f[2] is not None and len(v) > f[2]):
            raise NoFit('rest')
        return bytes(v)
    if k == 'Seq':
        if not isinstance(v, tuple) or len(v) != 2:
            raise NoFit('shape')
        a = enc(f[1], v[0], marks, base)
        b = enc(f[2], v[1], marks, base + len(a))
        return a + b
    if k == 'Bounded':
        ll = f[1]
        idx = None
        if marks is not None:
            idx = len(marks.fields)
            marks.fields.append(None)
        body = enc(f[2], v, marks, base + ll)
        hdr = be(len(body), ll)
        if marks is not None:
            marks.fields[idx] = (base, ll, base + ll, base + ll + len(body),
                                 marks.stack[-1] if marks.stack else None, 'len')
        return hdr + body
    if k == 'Rep':
        if not isinstance(v, list):
            raise NoFit('shape')
        parts, n = [], 0
        for e in v:
            x = enc(f[1], e, marks, base + n)
            parts.append(x)
            n += len(x)
        return b''.join(parts)
    if k == 'Opt':
        if v is None:
            return b''
        if not isinstance(v, Some):
            raise NoFit('shape')
        return enc(f[1], v.v, marks, base)
    if k == 'Check':
        if not PRED[f[1]](v):
            raise NoFit('outside the domain: ' + f[1])
        return enc(f[2], v, marks, base)
    if k == 'Tag':
        if not isinstance(v, Tagged):
            raise NoFit('shape')
        a = be(v.t, f[1])
        lab = f[4] if len(f) > 4 else None
        idx = None
        if marks is not None:
            idx = len(marks.fields)
            marks.fields.append(None)
            if lab:
                marks.stack.append((lab, v.t))
        try:
            body = enc(f[2](v.t), v.v, marks, base + len(a))
        finally:
            if marks is not None and lab:
                marks.stack.pop()
        if marks is not None:
            # a tag steers the parse of what follows (extension type, layout version, SSLv2 length words):
            # recorded so that it is perturbed like a length field
            marks.fields[idx] = (base, f[1], base + len(a), base + len(a) + len(body),
                                 marks.stack[-1] if marks.stack else None, 'tag')
        return a + body
    raise AssertionError(k)


# ---- strict decoder ----------------------------------------------------------------
def take(n, bs):
    if n < 0 or n > len(bs):
        raise Reject('short')
    return bs[:n], bs[n:]


def dec(f, bs):
    """-> (value, rest); raises Reject"""
    k = f[0]
    if k == 'U':
        a, r = take(f[1], bs)
        return int.from_bytes(a, 'big'), r
    if k == 'Const':
        a, r = take(f[1], bs)
        if int.from_bytes(a, 'big') != f[2]:
            raise Reject('const')
        return f[2], r
    if k == 'Fix':
        a, r = take(f[1], bs)
        return bytes(a), r
    if k == 'Rest':
        if len(bs) < f[1] or (f[2] is not None and len(bs) > f[2]):
            raise Reject('range')
        return bytes(bs), b''
    if k == 'Seq':
        a, r = dec(f[1], bs)
        b, r2 = dec(f[2], r)
        return (a, b), r2
    if k == 'Bounded':
        lb, r = take(f[1], bs)
        body, r2 = take(int.from_bytes(lb, 'big'), r)
        v, r3 = dec(f[2], body)
        if r3:
            raise Reject('trailing bytes inside structure')
        return v, r2
    if k == 'Rep':
        out = []
        bs = memoryview(bytes(bs))            # no quadratic copying on long lists
        while len(bs):
            v, r = dec(f[1], bs)
            if len(r) >= len(bs):
                raise AssertionError('element consumed nothing')
            out.append(v)
            bs = r
        return out, b''
    if k == 'Opt':
        if not bs:
            return None, b''
        v, r = dec(f[1], bs)
        return Some(v), r
    if k == 'Check':
        v, r = dec(f[2], bs)
        if not PRED[f[1]](v):
            raise Reject('outside the domain: ' + f[1])
        return v, r
    if k == 'Tag':
        a, r = take(f[1], bs)
        t = int.from_bytes(a, 'big')
        v, r2 = dec(f[2](t), r)
        return Tagged(t, v), r2
    raise AssertionError(k)


# ---- Gallina literals ---------------------------------------------------------------
def coq_val(v):
    if isinstance(v, bool):
        raise AssertionError('bool in value')
    if isinstance(v, int):
        return '(VInt %s)' % (str(v) if v >= 0 else '(%d)' % v)
    if isinstance(v, (bytes, bytearray)):
        return '(VBytes [%s])' % ';'.join(str(b) for b in v)
    if isinstance(v, tuple):
        return '(VPair %s %s)' % (coq_val(v[0]), coq_val(v[1]))
    if isinstance(v, list):
        return '(vlist [%s])' % ';'.join(coq_val(e) for e in v)
    if v is None:
        return 'VNone'
    if isinstance(v, Some):
        return '(VSome %s)' % coq_val(v.v)
    if isinstance(v, Tagged):
        return '(VTag %d %s)' % (v.t, coq_val(v.v))
    raise AssertionError(type(v))


def val_json(v):
    if isinstance(v, (bytes, bytearray)):
        return {'b': bytes(v).hex()}
    if isinstance(v, tuple):
        return {'p': [val_json(v[0]), val_json(v[1])]}
    if isinstance(v, list):
        return {'l': [val_json(e) for e in v]}
    if isinstance(v, Some):
        return {'some': val_json(v.v)}
    if isinstance(v, Tagged):
        return {'tag': v.t, 'v': val_json(v.v)}
    return v
