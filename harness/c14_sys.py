"""C14 system level: whole live connections (handshake, data both ways, close) run under
transport schedules, API styles (generators / AsyncStateMachine / blocking calls in threads)
and on-path re-framing of plaintext handshake flights; every outcome must equal the outcome
of the unconstrained run.  This is the property itself used as a direct oracle; it does not
need Coq."""
import errno
import hashlib
import itertools
import random
import socket
import threading

import loop
from loop import MemSock, classify, creds, settings, DetRandom, FakeClock, Deadlock

from tlslite.api import TLSConnection, SessionCache
from tlslite.integration.asyncstatemachine import AsyncStateMachine


# ------------------------------------------------------------------------------------------
class EpRandom(DetRandom):
    """loop.DetRandom with one independent stream per endpoint, so that what an endpoint
    draws does not depend on how the two endpoints are interleaved."""

    def __init__(self, seed=0):
        DetRandom.__init__(self, seed)
        self.seed = seed
        self.streams = {}
        self.cur = 'main'
        self.tl = threading.local()

    def __call__(self, n):
        tag = getattr(self.tl, 'tag', None) or self.cur
        r = self.streams.get(tag)
        if r is None:
            r = self.streams[tag] = random.Random('%s/%s' % (self.seed, tag))
        return bytearray(r.getrandbits(8) for _ in range(n))


def tagged(gen, tag, epr):
    while True:
        epr.cur = tag
        try:
            r = next(gen)
        except StopIteration:
            return
        finally:
            epr.cur = 'main'
        yield r


class MemSock2(MemSock):
    """MemSock whose sendall() can be exempt from scripted would-blocks."""
    sendall_blocks = True
    n_sendall = 0

    def sendall(self, data):
        self.n_sendall += 1
        if self.sendall_blocks:
            return MemSock.sendall(self, data)
        saved, self.block_send = self.block_send, None
        try:
            return MemSock.sendall(self, data)
        finally:
            self.block_send = saved


def sockpair2():
    a, b = MemSock2('c2s'), MemSock2('s2c')
    a.peer, b.peer = b, a
    return a, b


def drive2(gens, rng=None, max_steps=2000000, sig=None):
    """Advance generators in round-robin (rng None) or random order until all finished."""
    res = [None] * len(gens)
    vals = [None] * len(gens)
    active = list(range(len(gens)))
    idle = 0
    steps = 0
    last = sig() if sig else None
    while active:
        order = list(active)
        if rng is not None:
            order = [rng.choice(active) for _ in range(len(active))]
        progressed = False
        for i in order:
            if i not in active:
                continue
            try:
                r = next(gens[i])
                steps += 1
                if not isinstance(r, int):
                    vals[i] = r
                    progressed = True
                elif r == 1:
                    progressed = True
            except StopIteration:
                res[i] = ('ok', vals[i])
                active.remove(i)
                progressed = True
            except Exception as e:  # noqa
                res[i] = ('exc', e)
                active.remove(i)
                progressed = True
        if sig:
            now = sig()
            if now != last:
                progressed = True
                last = now
        idle = 0 if progressed else idle + 1
        if idle > 4000 or steps > max_steps:
            for i in active:
                res[i] = ('exc', Deadlock('no progress' if idle > 4000 else 'step budget'))
            break
    return res


# ------------------------------------------------------------------------------------------
# schedules
def _sizes(spec, seed):
    if spec in (None, 'all'):
        return None
    if spec == 'one':
        return itertools.repeat(1)
    r = random.Random(seed)
    if spec == 'rand':
        return iter(lambda: r.choice([1, 1, 2, 3, 5, 16, 100, 1000, 20000]), None)
    if spec == 'small':
        return iter(lambda: r.randrange(1, 8), None)
    raise ValueError(spec)


def _blocks(spec, seed):
    if not spec:
        return None
    if isinstance(spec, int):
        return itertools.cycle([True] * spec + [False])
    r = random.Random(seed)
    return iter(lambda: r.random() < 0.5, None)


def apply_schedule(sock, sched, salt):
    sock.recv_sizes = _sizes(sched.get('recv'), '%s/r/%s' % (sched.get('seed'), salt))
    sock.send_sizes = _sizes(sched.get('send'), '%s/s/%s' % (sched.get('seed'), salt))
    sock.block_recv = _blocks(sched.get('block_recv'), '%s/br/%s' % (sched.get('seed'), salt))
    sock.block_send = _blocks(sched.get('block_send'), '%s/bs/%s' % (sched.get('seed'), salt))
    sock.sendall_blocks = bool(sched.get('sendall_blocks', False))


def sched_class(s):
    return '%s/%s/br%s/bs%s%s/%s%s' % (s.get('recv', 'all'), s.get('send', 'all'), s.get('block_recv', 0),
                                      s.get('block_send', 0), '+sendall' if s.get('sendall_blocks') else '',
                                      s.get('api', 'gen'), '/reframe-' + s['reframe'] if s.get('reframe') else '')


# ------------------------------------------------------------------------------------------
class Reframer(object):
    """On-path re-framing of *plaintext* handshake records of one direction: the handshake
    byte stream is re-cut into records of other sizes and/or several records are merged.
    Everything from the first ChangeCipherSpec / application-data record on passes unchanged
    (no re-framing across key changes; TLS 1.3 records after ServerHello are encrypted).
    Never produces empty fragments; fragments are at most 2^14 bytes."""

    def __init__(self, style, seed):
        self.style = style
        self.rng = random.Random(seed)
        self.buf = bytearray()
        self.plain = True
        self.n_in = 0
        self.n_out = 0

    def _emit(self, recs):
        if not recs:
            return b''
        out = bytearray()
        groups = [recs] if self.style in ('merge', 'merge-rand') else [[r] for r in recs]
        for g in groups:
            ver = bytes(g[0][1:3])
            payload = b''.join(bytes(r[5:]) for r in g)
            pos = 0
            while pos < len(payload):
                if self.style == 'bytes':
                    k = 1
                elif self.style in ('rand', 'merge-rand'):
                    k = self.rng.choice([1, 2, 3, 4, 5, 7, 50, 300, 16384])
                elif self.style == 'head':       # the 4-byte message header split off
                    k = 3 if pos == 0 else 16384
                else:
                    k = 16384
                frag = payload[pos:pos + k]
                pos += len(frag)
                out += bytes([22]) + ver + bytes([len(frag) >> 8, len(frag) & 255]) + frag
                self.n_out += 1
        return bytes(out)

    def __call__(self, name, chunk):
        self.buf += chunk
        out = bytearray()
        pending = []
        while len(self.buf) >= 5:
            ln = (self.buf[3] << 8) | self.buf[4]
            if len(self.buf) < 5 + ln:
                break
            rec = bytes(self.buf[:5 + ln])
            del self.buf[:5 + ln]
            if self.plain and rec[0] == 22 and ln > 0:
                pending.append(rec)
                self.n_in += 1
            else:
                out += self._emit(pending)
                pending = []
                if rec[0] in (20, 23):
                    self.plain = False
                out += rec
        out += self._emit(pending)
        return bytes(out)


# ------------------------------------------------------------------------------------------
# scenarios
def _srv_creds(kind):
    chain, key = creds(kind)
    return dict(certChain=chain, privateKey=key)


def scenario_list():
    """(name, dict) flavours.  Each dict: ver, client kind, settings tweaks, credentials,
    extras (alpn, sni, resumption, client cert), data plan."""
    S = []
    plans = {
        'std': [('c2s', 1), ('s2c', 3000), ('c2s', 17000)],
        'small': [('c2s', 5), ('s2c', 300)],
        'big': [('s2c', 33000), ('c2s', 16385)],
    }
    for ver, nm in [((3, 0), 'ssl3'), ((3, 1), 'tls10'), ((3, 2), 'tls11'), ((3, 3), 'tls12'), ((3, 4), 'tls13')]:
        S.append((nm + '-rsa-default', dict(ver=ver, cred='rsa', plan='std' if nm in ('ssl3', 'tls12', 'tls13') else 'small',
                                            core=nm in ('ssl3', 'tls12', 'tls13'))))
    S += [
        ('tls12-rsakx-cbc-mte', dict(ver=(3, 3), cred='rsa', cs=dict(keyExchangeNames=['rsa'], cipherNames=['aes128'],
                                                                    useEncryptThenMAC=False), plan='small')),
        ('tls12-dhe-cbc-etm', dict(ver=(3, 3), cred='rsa', cs=dict(keyExchangeNames=['dhe_rsa'], cipherNames=['aes256']),
                                   plan='small')),
        ('tls12-ecdhe-ecdsa-gcm', dict(ver=(3, 3), cred='ecdsa', cs=dict(cipherNames=['aes128gcm']), plan='small')),
        ('tls12-chacha', dict(ver=(3, 3), cred='rsa', cs=dict(cipherNames=['chacha20-poly1305']), plan='small')),
        ('tls10-3des', dict(ver=(3, 1), cred='rsa', cs=dict(cipherNames=['3des'], keyExchangeNames=['rsa']), plan='small')),
        ('ssl3-rc4', dict(ver=(3, 0), cred='rsa', cs=dict(cipherNames=['rc4'], keyExchangeNames=['rsa']), plan='small')),
        ('tls12-anon', dict(ver=(3, 3), kind='anon', plan='small')),
        ('tls12-srp', dict(ver=(3, 3), kind='srp', plan='small')),
        ('tls12-clientcert', dict(ver=(3, 3), cred='rsa', clientcert='client-rsa', plan='small')),
        ('tls13-clientcert', dict(ver=(3, 4), cred='ecdsa', clientcert='client-rsa', plan='small')),
        ('tls13-hrr', dict(ver=(3, 4), cred='rsa', cs_client=dict(keyShares=[]), plan='small')),
        ('tls13-chacha-big', dict(ver=(3, 4), cred='rsa', cs=dict(cipherNames=['chacha20-poly1305']), plan='big')),
        ('tls13-psk', dict(ver=(3, 4), cred='rsa', psk=True, plan='small')),
        ('tls12-alpn-sni', dict(ver=(3, 3), cred='rsa', alpn=True, sni=True, plan='small')),
        ('tls13-alpn-sni', dict(ver=(3, 4), cred='rsa', alpn=True, sni=True, plan='small')),
        ('tls12-resume-id', dict(ver=(3, 3), cred='rsa', resume='id', plan='small')),
        ('tls13-resume-ticket', dict(ver=(3, 4), cred='rsa', resume='ticket', plan='small')),
        ('tls12-recsize', dict(ver=(3, 3), cred='rsa', cs=dict(record_size_limit=512), plan='small')),
        ('tls13-recsize', dict(ver=(3, 4), cred='rsa', cs=dict(record_size_limit=512), plan='small')),
        ('tls12-mismatch', dict(ver=(3, 3), cred='rsa', cs_client=dict(cipherNames=['aes128gcm']),
                                cs_server=dict(cipherNames=['chacha20-poly1305']), plan='small')),
        ('ver-mismatch', dict(ver=(3, 3), cred='rsa', server_ver=(3, 4), plan='small')),
        ('tls12-ed25519', dict(ver=(3, 3), cred='ed25519', plan='small')),
        ('tls13-ecdsa384', dict(ver=(3, 4), cred='ecdsa384', plan='small')),
    ]
    # one flavour per keyword argument of the public entry points, with a non-default value that changes the
    # outcome (api=True: always also run through AsyncStateMachine and the blocking calls)
    WRONG_FP = '00' * 20
    S += [
        ('kw-sni-mismatch-tls12', dict(ver=(3, 3), cred='rsa', sni='other.test', srv_sni='expected.test', plan='small', api=True)),
        ('kw-sni-mismatch-tls13', dict(ver=(3, 4), cred='rsa', sni='other.test', srv_sni='expected.test', plan='small', api=True)),
        ('kw-sni-match-tls12', dict(ver=(3, 3), cred='rsa', sni='expected.test', srv_sni='expected.test', plan='small', api=True)),
        ('kw-reqcert-nocert-tls12', dict(ver=(3, 3), cred='rsa', reqcert=True, plan='small', api=True)),
        ('kw-reqcert-nocert-tls13', dict(ver=(3, 4), cred='rsa', reqcert=True, plan='small', api=True)),
        ('kw-reqcas-tls12', dict(ver=(3, 3), cred='rsa', clientcert='client-rsa', reqcas=True,
                                 cs=dict(keyExchangeNames=['rsa'], cipherNames=['aes128']), plan='small', api=True)),
        ('kw-npn-tls12', dict(ver=(3, 3), cred='rsa', npn=True, plan='small', api=True)),
        ('kw-client-checker-reject', dict(ver=(3, 3), cred='rsa', cli_checker=WRONG_FP, plan='small', api=True)),
        ('kw-server-checker-reject', dict(ver=(3, 4), cred='rsa', clientcert='client-rsa', srv_checker=WRONG_FP, plan='small', api=True)),
        ('kw-srp-wrong-password', dict(ver=(3, 3), kind='srp', srp_password='wrong', plan='small', api=True)),
        ('kw-anon-tls10', dict(ver=(3, 1), kind='anon', plan='small', api=True)),
        ('kw-alpn-mismatch-tls13', dict(ver=(3, 4), cred='rsa', alpn='mismatch', plan='small', api=True)),
    ]
    for n, d in S:
        d['plan'] = plans[d['plan']]
        d['name'] = n
    return S


_VDB = {}


def _verifier_db():
    if 'db' not in _VDB:
        _VDB['db'] = loop.make_verifier_db()
    return _VDB['db']


def _mk_settings(scn, side):
    kw = dict(scn.get('cs', {}))
    kw.update(scn.get('cs_' + side, {}))
    ver = scn['ver']
    if side == 'server' and scn.get('server_ver'):
        ver = scn['server_ver']
    if scn.get('psk'):
        kw['pskConfigs'] = [(b'ident', b'\x11' * 32, 'sha256')]
    if scn.get('resume') == 'ticket' and side == 'server':
        kw['ticketKeys'] = [b'\x33' * 32]
        kw['ticketCipher'] = 'aes256gcm'
    return settings(minv=ver, maxv=ver, **kw)


def _hs_kwargs(scn, carry):
    """(client kind, client positional args, client kwargs, server kwargs) -- the SAME for every API style"""
    ckw = dict(settings=_mk_settings(scn, 'client'))
    skw = dict(settings=_mk_settings(scn, 'server'))
    kind = scn.get('kind', 'cert')
    cargs = ()
    if scn.get('sni'):
        ckw['serverName'] = scn['sni'] if isinstance(scn['sni'], str) else 'example.test'
    if scn.get('srv_sni'):
        skw['sni'] = scn['srv_sni']
    if carry.get('session') is not None:
        ckw['session'] = carry['session']
    if scn.get('resume') == 'id':
        skw['sessionCache'] = carry.setdefault('cache', SessionCache())
    if scn.get('cli_checker'):
        from tlslite.checker import Checker
        ckw['checker'] = Checker(x509Fingerprint=scn['cli_checker'])
    if scn.get('srv_checker'):
        from tlslite.checker import Checker
        skw['checker'] = Checker(x509Fingerprint=scn['srv_checker'])
    if kind == 'cert':
        if scn.get('alpn'):
            ckw['alpn'] = [b'h2', b'http/1.1'] if scn['alpn'] != 'mismatch' else [b'xx']
            skw['alpn'] = [b'http/1.1', b'spdy']
        if scn.get('npn'):
            ckw['nextProtos'] = [b'http/1.1', b'spdy/3']
            skw['nextProtos'] = [b'spdy/3', b'http/1.1']
        if scn.get('clientcert'):
            ckw['certChain'], ckw['privateKey'] = creds(scn['clientcert'])
            skw['reqCert'] = True
        if scn.get('reqcert'):
            skw['reqCert'] = True
        if scn.get('reqcas'):
            skw['reqCAs'] = [bytearray(b'\x30\x0f\x31\x0d\x30\x0b\x06\x03\x55\x04\x03\x0c\x04test')]
        skw.update(_srv_creds(scn['cred']))
    elif kind == 'anon':
        skw['anon'] = True
    else:
        skw['verifierDB'] = _verifier_db()
        skw.update(_srv_creds('rsa'))
        cargs = ('test', scn.get('srp_password', 'password'))
    return kind, cargs, ckw, skw


def _client_hs(client, kind, cargs, ckw, async_):
    kw = dict(ckw)
    if async_:
        kw['async_'] = True
    if kind == 'cert':
        return client.handshakeClientCert(**kw)
    if kind == 'anon':
        return client.handshakeClientAnonymous(**kw)
    return client.handshakeClientSRP(*cargs, **kw)


def _hs_generators(scn, client, server, carry):
    """Returns (client handshake generator, server keyword arguments)."""
    kind, cargs, ckw, skw = _hs_kwargs(scn, carry)
    return _client_hs(client, kind, cargs, ckw, True), skw


def _params(conn):
    s = conn.session
    out = dict(version=tuple(conn.version), closed=bool(conn.closed), resumed=bool(conn.resumed),
               next_proto=repr(getattr(conn, 'next_proto', None)))
    if s is not None:
        out.update(cipherSuite=s.cipherSuite, srp=repr(s.srpUsername), sni=repr(s.serverName),
                   etm=bool(s.encryptThenMAC), ems=bool(s.extendedMasterSecret), appProto=repr(s.appProto),
                   clientCert=None if s.clientCertChain is None else s.clientCertChain.getFingerprint(),
                   serverCert=None if s.serverCertChain is None else s.serverCertChain.getFingerprint(),
                   resumable=bool(s.resumable), n_tickets=len(getattr(conn, 'tickets', None) or []))
    return out


def _secret(conn):
    s = conn.session
    return None if s is None else hashlib.sha256(bytes(s.masterSecret)).hexdigest()[:16]


def certreq_digest(stream):
    """sha256 of the first plaintext CertificateRequest (handshake type 13) in a TLS <= 1.2 server byte stream
    (records up to the first ChangeCipherSpec), None if there is none.  Makes reqCAs / reqCert observable."""
    hs = bytearray()
    pos = 0
    while pos + 5 <= len(stream):
        t, ln = stream[pos], (stream[pos + 3] << 8) | stream[pos + 4]
        if t != 22 or pos + 5 + ln > len(stream):
            break
        hs += stream[pos + 5:pos + 5 + ln]
        pos += 5 + ln
    pos = 0
    while pos + 4 <= len(hs):
        n = int.from_bytes(hs[pos + 1:pos + 4], 'big')
        if hs[pos] == 13:
            return hashlib.sha256(bytes(hs[pos:pos + 4 + n])).hexdigest()[:16]
        pos += 4 + n
    return None


def payload(i, n):
    return bytes((i * 37 + j * 11 + (j >> 8)) & 0xff for j in range(n))


# ------------------------------------------------------------------------------------------
class _ASM(AsyncStateMachine):
    def __init__(self, conn):
        AsyncStateMachine.__init__(self)
        self.tlsConnection = conn
        self.connected = 0
        self.closed_events = 0
        self.reads = []
        self.write_events = 0

    def outConnectEvent(self):
        self.connected += 1

    def outCloseEvent(self):
        self.closed_events += 1

    def outReadEvent(self, b):
        self.reads.append(bytes(b))

    def outWriteEvent(self):
        self.write_events += 1


def _asm_pump(machines, tags, epr, done, rng=None, limit=2000000, sig=None):
    """Deliver read/write events until done() or an exception.  Returns per-machine outcome."""
    res = [None] * len(machines)
    idle = 0
    steps = 0
    last = sig() if sig else None
    while not done(res):
        progressed = False
        order = list(range(len(machines)))
        if rng is not None:
            rng.shuffle(order)
        for i in order:
            if res[i] is not None:
                continue
            m = machines[i]
            epr.cur = tags[i]
            try:
                if m.wantsReadEvent():
                    before = (m.connected, m.closed_events, len(m.reads), m.result)
                    m.inReadEvent()
                    if (m.connected, m.closed_events, len(m.reads), m.result) != before:
                        progressed = True
                elif m.wantsWriteEvent():
                    m.inWriteEvent()
                    progressed = True
            except Exception as e:  # noqa
                res[i] = ('exc', e)
                progressed = True
            finally:
                epr.cur = 'main'
            steps += 1
        if sig:
            now = sig()
            if now != last:
                progressed = True
                last = now
        idle = 0 if progressed else idle + 1
        if idle > 4000 or steps > limit:
            for i in range(len(machines)):
                if res[i] is None:
                    res[i] = ('exc', Deadlock('asm no progress'))
            break
    return res


# ------------------------------------------------------------------------------------------
def run_connection(scn, sched, epr, carry, idx):
    """One connection under one schedule with the generator API (api 'gen') or through
    AsyncStateMachine (api 'asm').  Returns an outcome dict (canonical, comparable)."""
    csock, ssock = sockpair2()
    apply_schedule(csock, sched, 'c%d' % idx)
    apply_schedule(ssock, sched, 's%d' % idx)
    rf = None
    if sched.get('reframe'):
        rf = (Reframer(sched['reframe'], '%s/rfc' % sched.get('seed')), Reframer(sched['reframe'], '%s/rfs' % sched.get('seed')))
        csock.tap, ssock.tap = rf[0], rf[1]
    client, server = TLSConnection(csock), TLSConnection(ssock)
    rng = random.Random('%s/drv' % sched.get('seed')) if sched.get('interleave') == 'rand' else None
    api = sched.get('api', 'gen')
    out = {}
    tc, ts = 'client%d' % idx, 'server%d' % idx

    def sig():
        return (len(csock.inbuf), len(ssock.inbuf), len(csock.sent_log), len(ssock.sent_log))
    cg, skw = _hs_generators(scn, client, server, carry)
    if api == 'gen':
        sg = server.handshakeServerAsync(**skw)
        r = drive2([tagged(cg, tc, epr), tagged(sg, ts, epr)], rng, sig=sig)
    else:
        mc, ms = _ASM(client), _ASM(server)
        r = [None, None]
        for i, (m, tag, start) in enumerate([(mc, tc, lambda: mc.setHandshakeOp(cg)),
                                             (ms, ts, lambda: ms.setServerHandshakeOp(**skw))]):
            epr.cur = tag
            try:
                start()
            except Exception as e:  # noqa
                r[i] = ('exc', e)
            epr.cur = 'main'
        ms_ = [mc, ms]
        pr = _asm_pump(ms_, [tc, ts], epr,
                       lambda res: all((res[i] is not None or r[i] is not None or ms_[i].result is None) for i in (0, 1)), rng, sig=sig)
        for i in (0, 1):
            if r[i] is None:
                r[i] = pr[i] if pr[i] is not None else ('ok', None)
        out['asm_connect_events'] = (mc.connected, ms.connected)
    out['hs'] = (classify(r[0]), classify(r[1]))
    if api == 'asm' and out['hs'] == (('ok',), ('ok',)) and out['asm_connect_events'] != (1, 1):
        out['hs'] = (('AsmConnectEvents', out['asm_connect_events'][0]), ('AsmConnectEvents', out['asm_connect_events'][1]))
    out['params'] = (_params(client), _params(server))
    out['secret'] = (_secret(client), _secret(server))
    out['certreq'] = None if rf else certreq_digest(b''.join(ssock.sent_log)[:65536])
    ok = out['hs'] == (('ok',), ('ok',))
    xfers = []
    if ok:
        for j, (d, n) in enumerate(scn['plan']):
            data = payload(j + idx, n)
            src, dst = (client, server) if d == 'c2s' else (server, client)
            tsrc, tdst = (tc, ts) if d == 'c2s' else (ts, tc)
            if api == 'gen':
                got = bytearray()

                def reader():
                    while len(got) < len(data):
                        for rr in dst.readAsync(max=65536, min=1):
                            if isinstance(rr, int):
                                yield rr
                            else:
                                got.extend(rr)
                                if len(rr) == 0:
                                    return
                                break
                w, rd = drive2([tagged(src.writeAsync(data), tsrc, epr), tagged(reader(), tdst, epr)], rng, sig=sig)
                xfers.append((classify(w), classify(rd), bytes(got) == data, len(got)))
            else:
                msrc, mdst = (mc, ms) if d == 'c2s' else (ms, mc)
                mdst.reads = []
                res = [None, None]
                epr.cur = tsrc
                try:
                    msrc.setWriteOp(data)
                except Exception as e:  # noqa
                    res[0] = ('exc', e)
                epr.cur = 'main'

                def done(rs, msrc=msrc, mdst=mdst, data=data):
                    return (rs[0] is not None or msrc.result is None) and \
                           (rs[1] is not None or sum(map(len, mdst.reads)) >= len(data))

                pr = _asm_pump_rw(msrc, mdst, tsrc, tdst, epr, done, res, rng, sig=sig)
                got = b''.join(mdst.reads)
                xfers.append((classify(pr[0]), classify(pr[1]), got == data, len(got)))
            if xfers[-1][:3] != (('ok',), ('ok',), True):
                ok = False
                break
    out['xfers'] = xfers
    out['wire'] = (hashlib.sha256(b''.join(csock.sent_log)).hexdigest()[:16],
                   hashlib.sha256(b''.join(ssock.sent_log)).hexdigest()[:16])
    out['wire_len'] = (sum(map(len, csock.sent_log)), sum(map(len, ssock.sent_log)))
    out['sendall_calls'] = (csock.n_sendall, ssock.n_sendall)
    if ok:
        if api == 'gen':
            rc = drive2([tagged(client.closeAsync(), tc, epr), tagged(server.closeAsync(), ts, epr)], rng, sig=sig)
            out['close'] = (classify(rc[0]), classify(rc[1]))
        else:
            res = [None, None]
            for i, (m, tag) in enumerate([(mc, tc), (ms, ts)]):
                epr.cur = tag
                try:
                    m.setCloseOp()
                except Exception as e:  # noqa
                    res[i] = ('exc', e)
                epr.cur = 'main'
            ms_ = [mc, ms]
            pr = _asm_pump(ms_, [tc, ts], epr,
                           lambda rs: all((rs[i] is not None or res[i] is not None or ms_[i].result is None) for i in (0, 1)), rng, sig=sig)
            out['close'] = tuple(classify(res[i] if res[i] is not None else (pr[i] if pr[i] is not None else ('ok', None)))
                                 for i in (0, 1))
            out['asm_close_events'] = (mc.closed_events, ms.closed_events)
        out['closed_flags'] = (bool(client.closed), bool(server.closed))
    out['sendall_calls'] = (csock.n_sendall, ssock.n_sendall)
    if rf:
        out['reframed'] = (rf[0].n_in, rf[0].n_out, rf[1].n_in, rf[1].n_out)
    if out['hs'][0] == ('ok',):
        carry['session'] = client.session
    return out


def _asm_pump_rw(msrc, mdst, tsrc, tdst, epr, done, res, rng, sig=None):
    """Writer machine has a write op; reader machine is idle and gets read events (which start
    readAsync(16384) operations) until all data arrived."""
    idle = 0
    steps = 0
    last = sig() if sig else None
    while not done(res):
        progressed = False
        for who in ((0, 1) if rng is None or rng.random() < 0.5 else (1, 0)):
            if res[who] is not None:
                continue
            m, tag = (msrc, tsrc) if who == 0 else (mdst, tdst)
            epr.cur = tag
            try:
                if who == 0:
                    if m.result is None:
                        continue
                    if m.wantsReadEvent():
                        m.inReadEvent()
                    else:
                        m.inWriteEvent()
                        progressed = True
                else:
                    n0 = len(m.reads)
                    if m.result is None or m.wantsReadEvent():
                        m.inReadEvent()
                    else:
                        m.inWriteEvent()
                        progressed = True
                    if len(m.reads) != n0:
                        progressed = True
            except Exception as e:  # noqa
                res[who] = ('exc', e)
                progressed = True
            finally:
                epr.cur = 'main'
            steps += 1
        if sig:
            now = sig()
            if now != last:
                progressed = True
                last = now
        idle = 0 if progressed else idle + 1
        if idle > 4000 or steps > 2000000:
            for i in (0, 1):
                if res[i] is None and not (i == 0 and msrc.result is None):
                    res[i] = ('exc', Deadlock('asm transfer no progress'))
            break
    return [r if r is not None else ('ok', None) for r in res]


def run_scenario(scn, sched, seed):
    """All connections of a scenario (two when it resumes) under one schedule."""
    epr = EpRandom(seed).install()
    clock = FakeClock().install()
    try:
        carry = {}
        outs = []
        n = 2 if scn.get('resume') else 1
        for idx in range(n):
            if sched.get('api') == 'blocking':
                outs.append(run_connection_blocking(scn, sched, epr, carry, idx))
            else:
                outs.append(run_connection(scn, sched, epr, carry, idx))
        return outs
    finally:
        clock.uninstall()
        epr.uninstall()


# ------------------------------------------------------------------------------------------
# blocking API in two threads over a real socketpair
class ChunkSock(object):
    def __init__(self, real, sched, salt):
        self.real = real
        self.rs = _sizes(sched.get('recv'), '%s/r/%s' % (sched.get('seed'), salt))
        self.ss = _sizes(sched.get('send'), '%s/s/%s' % (sched.get('seed'), salt))
        self.sent = hashlib.sha256()
        self.sent_len = 0
        self.n_sendall = 0
        self.first = bytearray()

    def recv(self, n):
        k = n if self.rs is None else max(1, min(n, next(self.rs, n) or n))
        return self.real.recv(k)

    def send(self, data):
        data = bytes(data)
        k = len(data) if self.ss is None else max(1, min(len(data), next(self.ss, len(data)) or len(data)))
        sent = self.real.send(data[:k])
        self.sent.update(data[:sent])
        if len(self.first) < 65536:
            self.first += data[:sent]
        self.sent_len += sent
        return sent

    def sendall(self, data):
        self.n_sendall += 1
        data = bytes(data)
        while data:
            k = self.send(data)
            data = data[k:]

    def close(self):
        try:
            self.real.shutdown(socket.SHUT_RDWR)
        except OSError:
            pass
        self.real.close()

    def shutdown(self, how):
        try:
            self.real.shutdown(how)
        except OSError:
            pass

    def settimeout(self, t):
        pass

    def gettimeout(self):
        return None

    def getsockname(self):
        return ('mem', 0)

    def getpeername(self):
        return ('mem', 1)

    def setsockopt(self, *a):
        pass


def run_connection_blocking(scn, sched, epr, carry, idx):
    a, b = socket.socketpair()
    a.settimeout(300)
    b.settimeout(300)
    csock, ssock = ChunkSock(a, sched, 'c%d' % idx), ChunkSock(b, sched, 's%d' % idx)
    client, server = TLSConnection(csock), TLSConnection(ssock)
    tc, ts = 'client%d' % idx, 'server%d' % idx
    kind, cargs, ckw, skw = _hs_kwargs(scn, carry)
    res = {'c': {}, 's': {}}
    plan = scn['plan']

    def body(side, conn, tag, hs):
        epr.tl.tag = tag
        me = res[side]
        try:
            hs()
            me['hs'] = ('ok', None)
        except Exception as e:  # noqa
            me['hs'] = ('exc', e)
            me['params'], me['secret'] = _params(conn), _secret(conn)
            raw = csock if side == 'c' else ssock
            me['wire'] = (raw.sent.hexdigest()[:16], raw.sent_len)
            try:
                conn.sock.close()
            except Exception:  # noqa
                pass
            return
        me['params'], me['secret'] = _params(conn), _secret(conn)
        me['x'] = []
        for j, (d, n) in enumerate(plan):
            data = payload(j + idx, n)
            writer = (d == 'c2s') == (side == 'c')
            try:
                if writer:
                    conn.write(data)
                    me['x'].append(('ok', None))
                else:
                    got = bytearray()
                    while len(got) < len(data):
                        r = conn.read(max=65536, min=1)
                        if not r:
                            break
                        got += r
                    me['x'].append(('ok', bytes(got) == data, len(got)))
            except Exception as e:  # noqa
                me['x'].append(('exc', e))
                raw = csock if side == 'c' else ssock
                me['wire'] = (raw.sent.hexdigest()[:16], raw.sent_len)
                try:
                    conn.sock.close()
                except Exception:  # noqa
                    pass
                return
        raw = csock if side == 'c' else ssock
        me['wire'] = (raw.sent.hexdigest()[:16], raw.sent_len)
        try:
            conn.close()
            me['close'] = ('ok', None)
        except Exception as e:  # noqa
            me['close'] = ('exc', e)

    def chs():
        _client_hs(client, kind, cargs, ckw, False)

    t1 = threading.Thread(target=body, args=('c', client, tc, chs))
    t2 = threading.Thread(target=body, args=('s', server, ts, lambda: server.handshakeServer(**skw)))
    t1.start()
    t2.start()
    t1.join(900)
    t2.join(900)
    out = {}
    hung = t1.is_alive() or t2.is_alive()
    out['hs'] = (classify(res['c'].get('hs', ('exc', Deadlock('thread hung')))),
                 classify(res['s'].get('hs', ('exc', Deadlock('thread hung')))))
    out['params'] = (res['c'].get('params'), res['s'].get('params'))
    out['secret'] = (res['c'].get('secret'), res['s'].get('secret'))
    out['certreq'] = certreq_digest(bytes(ssock.first))
    xfers = []
    ok = out['hs'] == (('ok',), ('ok',))
    if ok:
        for j, (d, n) in enumerate(plan):
            w, r = ('c', 's') if d == 'c2s' else ('s', 'c')
            xw = res[w].get('x', [])
            xr = res[r].get('x', [])
            ew = xw[j] if j < len(xw) else ('exc', Deadlock('missing'))
            er = xr[j] if j < len(xr) else ('exc', Deadlock('missing'))
            wcls = classify(ew if ew[0] == 'exc' else ('ok', None))
            if er[0] == 'exc':
                xfers.append((wcls, classify(er), False, 0))
            else:
                xfers.append((wcls, ('ok',), er[1], er[2]))
            if xfers[-1][:3] != (('ok',), ('ok',), True):
                ok = False
                break
    out['xfers'] = xfers
    if ok:
        out['close'] = (classify(res['c'].get('close', ('exc', Deadlock('missing')))),
                        classify(res['s'].get('close', ('exc', Deadlock('missing')))))
        out['closed_flags'] = (bool(client.closed), bool(server.closed))
    wc, ws = res['c'].get('wire', (None, None)), res['s'].get('wire', (None, None))
    out['wire'] = (wc[0], ws[0])
    out['wire_len'] = (wc[1], ws[1])
    out['sendall_calls'] = (csock.n_sendall, ssock.n_sendall)
    if hung:
        out['hung'] = True
    for s_ in (a, b):
        try:
            s_.close()
        except OSError:
            pass
    if out['hs'][0] == ('ok',):
        carry['session'] = client.session
    return out


# ------------------------------------------------------------------------------------------
COMPARE_ALWAYS = ('hs', 'params', 'certreq', 'xfers', 'close', 'closed_flags')
COMPARE_IF_DETERMINISTIC = ('secret', 'wire', 'wire_len')


def _peer_view(hs):
    """On real sockets (blocking API in threads) what the *other* end observes after one end
    failed and closed is a TCP race (alert read, EPIPE, ECONNRESET or EOF): not tlslite's doing."""
    def f(c):
        if c[0] in ('RemoteAlert', 'AbruptClose') or (c[0] == 'SockError' and c[1] in (errno.EPIPE, errno.ECONNRESET)):
            return ('PeerFailed',)
        return c
    return tuple(f(c) for c in hs)


def diff_outcomes(base, other, deterministic, reframed=False, api='gen'):
    """List of (field, connection index, base value, other value) that differ."""
    d = []
    if api == 'blocking':
        base = [dict(b, hs=_peer_view(b['hs'])) if b['hs'] != (('ok',), ('ok',)) else b for b in base]
        other = [dict(o, hs=_peer_view(o['hs'])) if o['hs'] != (('ok',), ('ok',)) else o for o in other]
    for i, (b, o) in enumerate(zip(base, other)):
        keys = list(COMPARE_ALWAYS)
        if deterministic:
            keys.append('secret')
            # on real sockets what is sent after the peer failed and closed is a TCP race: wire only for completed handshakes
            if not reframed and not (api == 'blocking' and b.get('hs') != (('ok',), ('ok',))):
                keys += ['wire', 'wire_len']
        if reframed and 'certreq' in keys:
            keys.remove('certreq')
        for k in keys:
            if b.get(k) != o.get(k):
                d.append((k, i, b.get(k), o.get(k)))
        if o.get('sendall_calls', (0, 0)) != (0, 0):
            d.append(('sendall-reached', i, (0, 0), o.get('sendall_calls')))
    if len(base) != len(other):
        d.append(('n_connections', 0, len(base), len(other)))
    return d


def schedules(rng, n_random, tier):
    """Fixed adversarial schedules followed by random ones."""
    S = [
        dict(recv='one'),
        dict(send='one'),
        dict(recv='one', send='one', block_recv=1),
        dict(recv='rand', send='rand'),
        dict(block_recv=3),
        dict(block_send=2, sendall_blocks=True),
        dict(recv='small', send='small', block_recv=1, block_send=1, sendall_blocks=True, interleave='rand'),
        dict(block_send=1, sendall_blocks=True),                 # would-block on every other send, flights included
        dict(block_send=3, send='small', sendall_blocks=True),
        dict(api='asm', block_send=1, block_recv=1, sendall_blocks=True),
        dict(api='asm'),
        dict(api='asm', recv='one', block_recv=1),
        dict(api='asm', recv='rand', send='rand', block_send=1, sendall_blocks=True),
        dict(reframe='bytes'),
        dict(reframe='rand'),
        dict(reframe='merge'),
        dict(reframe='head', recv='small'),
        dict(reframe='merge-rand', recv='rand', block_recv='rand'),
        dict(api='blocking'),
        dict(api='blocking', recv='one'),
        dict(api='blocking', recv='rand', send='small'),
    ]
    for _ in range(n_random):
        s = dict(recv=rng.choice(['all', 'one', 'rand', 'small']), send=rng.choice(['all', 'one', 'rand', 'small']),
                 block_recv=rng.choice([0, 0, 1, 2, 'rand']), block_send=rng.choice([0, 0, 1, 'rand']),
                 sendall_blocks=True, interleave=rng.choice([None, 'rand']),
                 api=rng.choice(['gen', 'gen', 'gen', 'asm']))
        if s['api'] == 'gen' and rng.random() < 0.35:
            s['reframe'] = rng.choice(['bytes', 'rand', 'merge', 'head', 'merge-rand'])
        S.append(s)
    for i, s in enumerate(S):
        s['seed'] = rng.getrandbits(32)
    return S


def worker(task):
    """task = (scenario dict, list of schedules, seed).  Runs the unconstrained baseline twice
    (determinism of the wire is established empirically) then every schedule.
    Returns dict(name, deterministic, base, results=[(sched, diffs, outcome or None)])."""
    scn, scheds, seed = task
    try:
        base = run_scenario(scn, {}, seed)
        base2 = run_scenario(scn, dict(interleave='rand', seed=seed), seed)
        deterministic = not diff_outcomes(base, base2, True)
        results = []
        for s in scheds:
            try:
                o = run_scenario(scn, s, seed)
                d = diff_outcomes(base, o, deterministic, reframed=bool(s.get('reframe')), api=s.get('api', 'gen'))
                results.append((s, d, o if d else None, o[0].get('reframed')))
            except Exception as e:  # noqa
                import traceback
                results.append((s, [('harness-exception', 0, None, traceback.format_exc()[-800:])], None, None))
        return dict(name=scn['name'], seed=seed, deterministic=deterministic, base=base, results=results,
                    base_diff=diff_outcomes(base, base2, False))
    except Exception:  # noqa
        import traceback
        return dict(name=scn['name'], error=traceback.format_exc())


# ------------------------------------------------------------------------------------------
# AsyncStateMachine: READ operations that have to WRITE (KeyUpdate answer, heartbeat response,
# post-handshake authentication, close_notify answer) under would-block / partial accepts on
# exactly those replies.  The replying endpoint R is driven only through AsyncStateMachine events
# by a select()-like loop; its peer P through generators.
REPLY_KINDS = [('plain', (3, 3)), ('plain', (3, 4)), ('plain', (3, 1)), ('heartbeat', (3, 3)), ('heartbeat', (3, 4)),
               ('keyupdate', (3, 4)), ('keyupdate2', (3, 4)), ('pha', (3, 4))]


def reply_schedules(rng, n_random):
    S = [
        dict(block_send=1),
        dict(block_send=3),
        dict(block_send=[0]),                       # only the first send of the reply blocks
        dict(block_send=[0, 1, 2]),
        dict(block_send=[1, 2]),
        dict(send='one'),
        dict(send='small', block_send=[0, 2, 3, 7]),
        dict(send='small', block_send=1, recv='one', block_recv=1),
        dict(recv='one'),
        dict(block_send='rand', send='rand', interleave='rand'),
    ]
    for _ in range(n_random):
        S.append(dict(block_send=rng.choice([1, 2, 'rand', [0], [0, 1], [1], [2, 3]]),
                      send=rng.choice(['all', 'one', 'small', 'rand']),
                      recv=rng.choice(['all', 'one', 'small']), block_recv=rng.choice([0, 0, 1, 'rand']),
                      interleave=rng.choice([None, 'rand'])))
    for s in S:
        s['seed'] = rng.getrandbits(32)
        s['api'] = 'asm-reply'
    return S


def _blocks2(spec, seed):
    if isinstance(spec, list):
        n = max(spec) + 1 if spec else 0
        return iter([i in spec for i in range(n)])
    return _blocks(spec, seed)


def run_reply(kind, ver, sched, seed):
    """Returns a canonical outcome dict."""
    from tlslite.constants import KeyUpdateMessageType
    epr = EpRandom(seed).install()
    clock = FakeClock().install()
    try:
        csock, ssock = sockpair2()
        client, server = TLSConnection(csock), TLSConnection(ssock)
        hb_seen = []
        cset = settings(minv=ver, maxv=ver)
        sset = settings(minv=ver, maxv=ver)
        cset.heartbeat_response_callback = lambda m: hb_seen.append(bytes(m.payload))
        chain, key = creds('rsa')
        ckw = dict(settings=cset, async_=True)
        if kind == 'pha':
            ckw['certChain'], ckw['privateKey'] = creds('client-rsa')
        r = drive2([tagged(client.handshakeClientCert(**ckw), 'client', epr),
                    tagged(server.handshakeServerAsync(certChain=chain, privateKey=key, settings=sset), 'server', epr)])
        out = {'hs': (classify(r[0]), classify(r[1]))}
        if out['hs'] != (('ok',), ('ok',)):
            return out
        # R replies inside its read operation; P provokes the reply
        if kind == 'pha':
            R, P, rsock, tagR, tagP = client, server, csock, 'client', 'server'
        else:
            R, P, rsock, tagR, tagP = server, client, ssock, 'server', 'client'
        psock = rsock.peer
        m = _ASM(R)
        # the schedule applies to R's socket from here on (the replies)
        rsock.recv_sizes = _sizes(sched.get('recv'), '%s/r' % sched.get('seed'))
        rsock.send_sizes = _sizes(sched.get('send'), '%s/s' % sched.get('seed'))
        rsock.block_recv = _blocks(sched.get('block_recv'), '%s/br' % sched.get('seed'))
        rsock.block_send = _blocks2(sched.get('block_send'), '%s/bs' % sched.get('seed'))
        rsock.sendall_blocks = True
        rng = random.Random('%s/drv' % sched.get('seed')) if sched.get('interleave') == 'rand' else None
        errs = {'R': None, 'P': None}

        def sig():
            return (len(csock.inbuf), len(ssock.inbuf), len(csock.sent_log), len(ssock.sent_log), len(m.reads),
                    m.closed_events, m.write_events if m.result is not None else 0)

        def pump(until, peer_gens=()):
            """select()-like loop: one event for R according to wants*Event, one step of each peer generator"""
            gens = [tagged(g, tagP, epr) for g in peer_gens]
            active = list(range(len(gens)))
            pres = [None] * len(gens)
            idle, steps, last = 0, 0, sig()
            while True:
                if errs['R'] is None and until() and not active:
                    return pres
                for i in list(active):
                    try:
                        v = next(gens[i])
                        if not isinstance(v, int):
                            pres[i] = v
                    except StopIteration:
                        active.remove(i)
                    except Exception as e:  # noqa
                        errs['P'] = e
                        active.remove(i)
                if errs['R'] is None and not until():
                    epr.cur = tagR
                    try:
                        if m.wantsWriteEvent():
                            m.inWriteEvent()          # the socket is writable
                        else:
                            m.inReadEvent()           # the socket is (or may be) readable
                    except Exception as e:  # noqa
                        errs['R'] = e
                    finally:
                        epr.cur = 'main'
                elif errs['R'] is not None and not active:
                    return pres
                steps += 1
                now = sig()
                idle = 0 if now != last else idle + 1
                last = now
                if idle > 3000 or steps > 1000000:
                    errs['R'] = errs['R'] or Deadlock('AsyncStateMachine makes no progress (wantsRead=%r wantsWrite=%r)'
                                                      % (m.wantsReadEvent(), m.wantsWriteEvent()))
                    return pres

        def provoke():
            if kind in ('keyupdate', 'keyupdate2'):
                for x in P.send_keyupdate_request(KeyUpdateMessageType.update_requested):
                    yield x
                if kind == 'keyupdate2':        # two requests back to back, then data
                    for x in P.send_keyupdate_request(KeyUpdateMessageType.update_requested):
                        yield x
            elif kind == 'heartbeat':
                for x in P.write_heartbeat(bytearray(b'hb-payload'), 16):
                    yield x
            elif kind == 'pha':
                for x in P.request_post_handshake_auth():
                    yield x
            for x in P.writeAsync(b'ping'):
                yield x

        pump(lambda: b''.join(m.reads) == b'ping', [provoke()])
        out['ping'] = b''.join(m.reads)
        if errs['R'] is None and errs['P'] is None:
            m.reads = []
            epr.cur = tagR
            try:
                m.setWriteOp(b'pong')
            except Exception as e:  # noqa
                errs['R'] = e
            epr.cur = 'main'

            def preader():
                for x in P.readAsync(4, 4):
                    yield x
            pr = pump(lambda: m.result is None, [preader()])
            out['pong'] = bytes(pr[0]) if isinstance(pr[0], (bytes, bytearray)) else repr(pr[0])
        out['heartbeat_response'] = list(hb_seen)
        if kind == 'pha':
            cc = server.session.clientCertChain if server.session else None
            out['pha_cert'] = None if cc is None else cc.getFingerprint()
        if errs['R'] is None and errs['P'] is None:
            # P closes and waits for R's close_notify, which R's read operation has to send
            P.closeSocket = False
            pump(lambda: R.closed, [P.closeAsync()])
            out['after_close_reads'] = b''.join(m.reads)
            out['closed'] = (bool(R.closed), bool(P.closed))
        out['R'] = classify(('exc', errs['R'])) if errs['R'] is not None else ('ok',)
        out['P'] = classify(('exc', errs['P'])) if errs['P'] is not None else ('ok',)
        out['sendall_calls'] = (csock.n_sendall, ssock.n_sendall)
        return out
    finally:
        clock.uninstall()
        epr.uninstall()


def worker_reply(task):
    kind, ver, scheds, seed = task
    name = 'reply-%s-%d.%d' % (kind, ver[0], ver[1])
    try:
        base = run_reply(kind, ver, {}, seed)
        results = []
        for s in scheds:
            try:
                o = run_reply(kind, ver, s, seed)
                d = [(k, 0, base.get(k), o.get(k)) for k in sorted(set(base) | set(o)) if base.get(k) != o.get(k)]
                results.append((s, d, o if d else None, None))
            except Exception:  # noqa
                import traceback
                results.append((s, [('harness-exception', 0, None, traceback.format_exc()[-800:])], None, None))
        return dict(name=name, seed=seed, deterministic=False, base=[dict(base, hs=base['hs'])], results=results, base_diff=[],
                    reply=(kind, ver))
    except Exception:  # noqa
        import traceback
        return dict(name=name, error=traceback.format_exc())


# ------------------------------------------------------------------------------------------
# PER-CALL chunking independence: what each individual read()/readAsync()/poll call returns (and
# the state it leaves) must not depend on how the transport chunked the bytes that had arrived.
# The server (P) sends a history of post-handshake items completely, then the client (R) performs
# a fixed list of calls; several stages.  Compared per call across recv schedules and API styles,
# and with the Coq model of the read loop (Model/C14_ReadLoop.v) given only the message sequence.
class WouldHang(Exception):
    """blocking call on a socket that has nothing left: in real life it would wait forever"""


class HangSock(MemSock2):
    """blocking-socket view of the pipe: never reports would-block; empty pipe = would wait forever"""
    hang = False

    def recv(self, n):
        if self.hang and not self.inbuf and not self.peer_closed:
            raise WouldHang()
        return MemSock2.recv(self, n)


def call_histories(rng, n_random):
    P0 = (None, 0)
    H = [
        dict(name='tls13-tickets-then-data', ver=(3, 4), tickets=2,
             stages=[([('data', 10)], [P0, P0, P0, P0, (None, 1)])]),
        dict(name='tls13-tickets-alone-then-data', ver=(3, 4), tickets=3,
             stages=[([], [P0, P0, P0, P0]), ([('data', 4), ('data', 6)], [P0, (3, 0), P0, P0, P0])]),
        dict(name='tls13-keyupdate-data', ver=(3, 4), tickets=0,
             stages=[([('keyupdate',), ('data', 5), ('keyupdate',), ('keyupdate',), ('data', 2)], [P0, P0, P0])]),
        dict(name='tls13-tickets-keyupdate-mixed', ver=(3, 4), tickets=2,
             stages=[([('data', 3), ('keyupdate',), ('data', 4)], [P0, P0, P0, (2, 1), (None, 5), P0])]),
        dict(name='tls13-big-data', ver=(3, 4), tickets=1,
             stages=[([('data', 20000), ('data', 1)], [P0, (100, 1), (None, 0), (5, 17000), (None, 0), (None, 0), P0])]),
        dict(name='tls12-heartbeat-data-close', ver=(3, 3), tickets=0,
             stages=[([('heartbeat',), ('data', 7), ('heartbeat',), ('data', 2), ('close',)],
                      [P0, (3, 1), (None, 1), P0, P0, (None, 1)])]),
        dict(name='tls13-pha-data', ver=(3, 4), tickets=1, clientcert=True,
             stages=[([('pha',), ('data', 6)], [P0, P0, P0, P0])]),
        dict(name='tls13-heartbeat-tickets', ver=(3, 4), tickets=2,
             stages=[([('heartbeat',), ('data', 3), ('close',)], [P0, P0, P0, P0, P0])]),
        dict(name='tls10-data-close', ver=(3, 1), tickets=0,
             stages=[([('data', 40), ('data', 2)], [(10, 1), P0, (None, 40)]), ([('close',)], [P0, P0])]),
        dict(name='tls13-asm-reads', ver=(3, 4), tickets=2, api='asm',
             stages=[([('data', 10), ('keyupdate',), ('data', 20000)], [(16384, 1)] * 5)]),
        dict(name='tls12-asm-reads', ver=(3, 3), tickets=0, api='asm',
             stages=[([('data', 10), ('heartbeat',), ('data', 5)], [(16384, 1)] * 3)]),
    ]
    for i in range(n_random):
        ver = rng.choice([(3, 4), (3, 4), (3, 3)])
        stages = []
        for _ in range(rng.choice([1, 2, 3])):
            acts = []
            for _ in range(rng.randrange(0, 5)):
                k = rng.choice(['data', 'data', 'keyupdate', 'heartbeat'] if ver == (3, 4) else ['data', 'data', 'heartbeat'])
                acts.append(('data', rng.choice([1, 2, 5, 30, 300])) if k == 'data' else (k,))
            calls = [rng.choice([P0, P0, P0, (None, 1), (rng.choice([1, 3, 10]), rng.choice([0, 1, 2])), (None, rng.choice([2, 6]))])
                     for _ in range(rng.randrange(1, 6))]
            stages.append((acts, calls))
        if rng.random() < 0.4:
            stages.append(([('close',)], [P0, P0]))
        H.append(dict(name='random-%d' % i, ver=ver, tickets=rng.choice([0, 1, 2, 3]) if ver == (3, 4) else 0,
                      stages=stages))
    return H


def history_messages(h):
    """what R's read loop sees, per stage (model input)"""
    out = []
    for si, (acts, calls) in enumerate(h['stages']):
        ms = [('T',)] * h['tickets'] if si == 0 else []
        for ai, a in enumerate(acts):
            if a[0] == 'data':
                d = payload(si * 16 + ai, a[1])
                if h['ver'] <= (3, 1) and len(d) > 1:
                    # 1/n-1 record splitting of CBC suites in SSLv3/TLS 1.0 (BEAST countermeasure)
                    ms.append(('D', d[:1]))
                    d = d[1:]
                for i in range(0, len(d), 16384):
                    ms.append(('D', d[i:i + 16384]))
            elif a[0] == 'keyupdate':
                ms.append(('K',))
            elif a[0] == 'pha':
                ms.append(('P',))
            elif a[0] == 'close':
                ms.append(('C',))
        out.append(ms)
    return out


def run_calltrace(h, sched, seed):
    """Returns the per-call trace [(stage, call index, result, n_tickets, closed)]."""
    from tlslite.constants import KeyUpdateMessageType
    api = sched.get('api') or h.get('api') or 'gen'
    epr = EpRandom(seed).install()
    clock = FakeClock().install()
    try:
        csock, ssock = HangSock('c2s'), HangSock('s2c')
        csock.peer, ssock.peer = ssock, csock
        client, server = TLSConnection(csock), TLSConnection(ssock)
        ver = h['ver']
        cset = settings(minv=ver, maxv=ver)
        sset = settings(minv=ver, maxv=ver)
        if h['tickets']:
            sset.ticketKeys = [b'\x33' * 32]
            sset.ticket_count = h['tickets']
        else:
            sset.ticket_count = 0
        sset.heartbeat_response_callback = lambda msg: None      # allows P to send heartbeat requests
        chain, key = creds('rsa')
        ckw = dict(settings=cset, async_=True)
        if h.get('clientcert'):
            ckw['certChain'], ckw['privateKey'] = creds('client-rsa')
        r = drive2([tagged(client.handshakeClientCert(**ckw), 'client', epr),
                    tagged(server.handshakeServerAsync(certChain=chain, privateKey=key, settings=sset), 'server', epr)])
        if (classify(r[0]), classify(r[1])) != (('ok',), ('ok',)):
            return [('handshake', classify(r[0]), classify(r[1]))]
        R, P, rsock = client, server, csock
        rsock.recv_sizes = _sizes(sched.get('recv'), '%s/r' % sched.get('seed'))
        rsock.block_recv = _blocks(sched.get('block_recv'), '%s/br' % sched.get('seed'))
        rsock.send_sizes = _sizes(sched.get('send'), '%s/s' % sched.get('seed'))
        rsock.block_send = _blocks(sched.get('block_send'), '%s/bs' % sched.get('seed'))
        trace = []
        m = _ASM(R) if api == 'asm' else None
        dead = False
        for si, (acts, calls) in enumerate(h['stages']):
            # P sends the whole stage
            def send_all():
                for ai, a in enumerate(acts):
                    if a[0] == 'data':
                        for x in P.writeAsync(payload(si * 16 + ai, a[1])):
                            yield x
                    elif a[0] == 'keyupdate':
                        for x in P.send_keyupdate_request(KeyUpdateMessageType.update_requested):
                            yield x
                    elif a[0] == 'heartbeat':
                        for x in P.write_heartbeat(bytearray(b'hb'), 16):
                            yield x
                    elif a[0] == 'pha':
                        for x in P.request_post_handshake_auth():
                            yield x
                    elif a[0] == 'close':
                        for x in P.closeAsync():
                            yield x
            pr = drive2([tagged(send_all(), 'server', epr)])
            if pr[0][0] != 'ok':
                trace.append((si, 'peer', classify(pr[0])))
                break
            for ci, (mx, mn) in enumerate(calls):
                res = None
                epr.cur = 'client'
                try:
                    if api == 'blocking':
                        rsock.hang = True
                        try:
                            res = ('bytes', bytes(R.read(mx, mn)))
                        except WouldHang:
                            res = ('pending',)
                            dead = True
                        finally:
                            rsock.hang = False
                    elif api == 'asm':
                        n0 = len(m.reads)
                        steps = 0
                        while len(m.reads) == n0:
                            if m.result is not None and m.wantsWriteEvent():
                                m.inWriteEvent()
                            else:
                                m.inReadEvent()
                            steps += 1
                            if len(m.reads) == n0 and m.result == 0 and not rsock.inbuf:
                                res = ('pending',)
                                break
                            if steps > 2000000:
                                raise Deadlock('asm read makes no progress')
                        if res is None:
                            res = ('bytes', m.reads[-1])
                    else:
                        g = R.readAsync(mx, mn)
                        steps = 0
                        for v in g:
                            if isinstance(v, int):
                                steps += 1
                                if v == 0 and not rsock.inbuf:
                                    res = ('pending',)
                                    g.close()
                                    break
                                if steps > 2000000:
                                    raise Deadlock('read makes no progress')
                            else:
                                res = ('bytes', bytes(v))
                                break
                except Exception as e:  # noqa
                    res = ('exc',) + classify(('exc', e))
                    dead = True
                finally:
                    epr.cur = 'main'
                trace.append((si, ci, res, len(R.tickets or []), bool(R.closed)))
                if dead:
                    break
            if dead:
                break
        return trace
    finally:
        clock.uninstall()
        epr.uninstall()


def calltrace_schedules(rng, n_random):
    S = [dict(recv='one'), dict(recv='small'), dict(recv='rand'), dict(recv='one', block_recv=1), dict(block_recv=2),
         dict(recv='rand', block_recv='rand', send='small', block_send=1),
         dict(api='blocking'), dict(api='blocking', recv='one'), dict(api='blocking', recv='rand')]
    for _ in range(n_random):
        S.append(dict(recv=rng.choice(['one', 'small', 'rand']), block_recv=rng.choice([0, 1, 'rand']),
                      send=rng.choice(['all', 'small']), block_send=rng.choice([0, 1])))
    for s in S:
        s['seed'] = rng.getrandbits(32)
    return S


def worker_calltrace(task):
    h, scheds, seed = task
    try:
        base = run_calltrace(h, {}, seed)
        results = []
        for s in scheds:
            if h.get('api') == 'asm' and s.get('api') == 'blocking':
                continue
            try:
                t = run_calltrace(h, s, seed)
                if s.get('api') == 'blocking':
                    # up to and including the first call that would wait forever
                    cut = next((i for i, x in enumerate(base) if len(x) > 2 and x[2] == ('pending',)), len(base) - 1)
                    ref = base[:cut + 1]
                    if ref and t and len(ref) == len(t) and len(ref[-1]) > 2 and ref[-1][2] == ('pending',):
                        # the blocking call that would wait forever was aborted by the harness: the
                        # connection is shut down by read()'s handler, only the verdict is compared
                        ref = ref[:-1] + [ref[-1][:4] + (t[-1][4],)]
                else:
                    ref = base
                d = []
                if t != ref:
                    i = next((i for i in range(min(len(t), len(ref))) if t[i] != ref[i]), min(len(t), len(ref)))
                    d = [('call-%d' % i, 0, ref[i] if i < len(ref) else None, t[i] if i < len(t) else None)]
                results.append((s, d, t if d else None, None))
            except Exception:  # noqa
                import traceback
                results.append((s, [('harness-exception', 0, None, traceback.format_exc()[-800:])], None, None))
        return dict(name='calls-' + h['name'], seed=seed, deterministic=False, base=[{'hs': (('ok',), ('ok',))}], results=results,
                    base_diff=[], calltrace=h, base_trace=base)
    except Exception:  # noqa
        import traceback
        return dict(name='calls-' + h['name'], error=traceback.format_exc())


# ------------------------------------------------------------------------------------------
# SENDER's record size: "handshake messages split across or packed into records in any way are processed
# identically" also for what tlslite's own sender produces.  The sender's recordSize (application
# setting) and the negotiated record_size_limit are swept over small values, including divisors of
# message lengths; a heartbeat whose length is exactly the record size; both roles.  Everything must
# equal the run with the default record size.
def recsize_cases(quick, rng):
    C = []
    vers = [((3, 3), 'tls12'), ((3, 4), 'tls13'), ((3, 1), 'tls10')]
    sizes_both = [1, 2, 3, 4, 13, 16, 31, 52] if quick else list(range(1, 41)) + [52, 64, 100, 128, 255, 256, 1000]
    for ver, nm in vers:
        for k in (sizes_both if nm != 'tls10' else ([2, 16] if quick else [1, 2, 3, 4, 8, 16, 20, 36])):
            C.append(dict(name='%s-recsize-%d-both' % (nm, k), ver=ver, csize=k, ssize=k))
        for k in ([4] if quick else [1, 2, 4, 7, 12, 16, 26, 32]):
            C.append(dict(name='%s-recsize-%d-client' % (nm, k), ver=ver, csize=k))
            C.append(dict(name='%s-recsize-%d-server' % (nm, k), ver=ver, ssize=k))
    for ver, nm in vers[:2]:
        for lim in ([64, 100] if quick else [64, 65, 66, 67, 68, 72, 80, 96, 100, 127, 128, 129, 255, 256, 257, 511]):
            C.append(dict(name='%s-rsl-%d' % (nm, lim), ver=ver, rsl=lim))
        for k in ([32] if quick else [19, 20, 24, 32, 33, 64, 100]):
            C.append(dict(name='%s-heartbeat-eq-recsize-%d' % (nm, k), ver=ver, hbsize=k))
        C.append(dict(name='%s-clientcert-recsize-2' % nm, ver=ver, csize=2, ssize=2, clientcert=True))
    return C


def run_recsize(case, apply_sizes, seed):
    """One connection; apply_sizes False = reference run with the default record size."""
    epr = EpRandom(seed).install()
    clock = FakeClock().install()
    try:
        csock, ssock = sockpair2()
        client, server = TLSConnection(csock), TLSConnection(ssock)
        ver = case['ver']
        hb = []
        cset, sset = settings(minv=ver, maxv=ver), settings(minv=ver, maxv=ver)
        cset.heartbeat_response_callback = lambda m: hb.append(bytes(m.payload))
        if ver == (3, 4):
            sset.ticketKeys = [b'\x33' * 32]
        if apply_sizes and case.get('rsl'):
            cset.record_size_limit = case['rsl']
            sset.record_size_limit = case['rsl']
        if apply_sizes and case.get('csize'):
            client.recordSize = case['csize']
        if apply_sizes and case.get('ssize'):
            server.recordSize = case['ssize']
        chain, key = creds('rsa')
        ckw = dict(settings=cset, async_=True)
        skw = dict(certChain=chain, privateKey=key, settings=sset)
        if case.get('clientcert'):
            ckw['certChain'], ckw['privateKey'] = creds('client-rsa')
            skw['reqCert'] = True

        def sig():
            return (len(csock.inbuf), len(ssock.inbuf), len(csock.sent_log), len(ssock.sent_log))
        r = drive2([tagged(client.handshakeClientCert(**ckw), 'client', epr),
                    tagged(server.handshakeServerAsync(**skw), 'server', epr)], sig=sig)
        out = {'hs': (classify(r[0]), classify(r[1]))}
        p = (_params(client), _params(server))
        out['params'] = p
        if out['hs'] != (('ok',), ('ok',)):
            return out
        steps = []

        def xfer(src, dst, tsrc, tdst, data):
            got = bytearray()

            def reader():
                while len(got) < len(data):
                    for rr in dst.readAsync(max=65536, min=1):
                        if isinstance(rr, int):
                            yield rr
                        else:
                            got.extend(rr)
                            if len(rr) == 0:
                                return
                            break
            w, rd = drive2([tagged(src.writeAsync(data), tsrc, epr), tagged(reader(), tdst, epr)], sig=sig)
            steps.append((classify(w), classify(rd), bytes(got) == data))
        xfer(client, server, 'client', 'server', payload(1, 33))
        xfer(server, client, 'server', 'client', payload(2, 64))
        if case.get('hbsize'):
            k = case['hbsize']
            if apply_sizes:
                client.recordSize = k
            # heartbeat message = type(1) + length(2) + payload + padding(16): exactly k bytes
            w = drive2([tagged(client.write_heartbeat(bytearray(payload(3, k - 19)), 16), 'client', epr)], sig=sig)
            steps.append(('hb-write', classify(w[0])))
            xfer(client, server, 'client', 'server', payload(4, 5))
            xfer(server, client, 'server', 'client', payload(5, 7))
            steps.append(('hb-response', list(hb)))
        out['steps'] = steps
        rc = drive2([tagged(client.closeAsync(), 'client', epr), tagged(server.closeAsync(), 'server', epr)], sig=sig)
        out['close'] = (classify(rc[0]), classify(rc[1]))
        return out
    finally:
        clock.uninstall()
        epr.uninstall()


def worker_recsize(task):
    cases, seed = task
    out = []
    for case in cases:
        try:
            base = run_recsize(case, False, seed)
            o = run_recsize(case, True, seed)
            d = [(k, 0, base.get(k), o.get(k)) for k in sorted(set(base) | set(o)) if base.get(k) != o.get(k)]
            # the negotiated limit itself is a setting, not an outcome
            s = dict(api='recsize', case={k: v for k, v in case.items() if k != 'name'}, seed=0)
            out.append(dict(name='recsize-' + case['name'], seed=seed, deterministic=False, base=[base], base_diff=[],
                            results=[(s, d, o if d else None, None)], recsize=case))
        except Exception:  # noqa
            import traceback
            out.append(dict(name='recsize-' + case['name'], error=traceback.format_exc()))
    return out


# ------------------------------------------------------------------------------------------
# FAILURE paths: a send of endpoint X fails (ECONNRESET) at send index i; what the peer had sent
# before dying (a fatal alert, a data/garbage record, half a record, nothing) is delivered to X under
# every recv schedule.  X's outcome (exception class, closed/resumable state) must be the same for all
# schedules.  Up to the fault the run is unconstrained, so X's state (read-ahead included) is identical.
ALERT_HF = bytes([21, 3, 3, 0, 2, 2, 40])            # fatal handshake_failure
INJECT = {
    'alert': ALERT_HF,
    'alert-tls10': bytes([21, 3, 1, 0, 2, 2, 40]),
    'half-alert': ALERT_HF[:4],
    'warning-then-alert': bytes([21, 3, 3, 0, 2, 1, 90]) + ALERT_HF,
    'appdata': bytes([23, 3, 3, 0, 3, 1, 2, 3]),
    'handshake-junk': bytes([22, 3, 3, 0, 4, 0, 0, 0, 0]),
    'nothing': b'',
}


class FaultSock(MemSock2):
    """X's socket: the fail_at-th send() raises ECONNRESET; at that moment the peer is dead, X's pipe holds
    exactly `inject`, and the recv schedule `after` starts to apply."""
    fail_at = None
    inject = b''
    after = None
    dead = False

    def send(self, data):
        if self.dead:
            self.n_send += 1
            raise socket.error(errno.ECONNRESET, 'Connection reset by peer')
        if self.fail_at is not None and self.n_send == self.fail_at:
            self.n_send += 1
            self.dead = True
            del self.inbuf[:]
            self.inbuf += self.inject
            self.peer_closed = True
            if self.after:
                self.recv_sizes = _sizes(self.after.get('recv'), '%s/r' % self.after.get('seed'))
                self.block_recv = _blocks2(self.after.get('block_recv'), '%s/br' % self.after.get('seed'))
            raise socket.error(errno.ECONNRESET, 'Connection reset by peer')
        return MemSock2.send(self, data)


def fault_flavours(quick):
    F = [dict(name='tls12', ver=(3, 3)), dict(name='tls13', ver=(3, 4)), dict(name='tls13-clientcert', ver=(3, 4), clientcert=True)]
    if not quick:
        F += [dict(name='tls10', ver=(3, 1)), dict(name='tls12-clientcert', ver=(3, 3), clientcert=True),
              dict(name='ssl3', ver=(3, 0)), dict(name='tls13-hrr', ver=(3, 4), hrr=True)]
    return F


def fault_schedules(quick):
    S = [dict(block_recv=[0]), dict(recv='one', block_recv=1), dict(recv='small'), dict(block_recv=[0, 1, 2], recv='one')]
    if not quick:
        S += [dict(recv='one'), dict(block_recv=2), dict(recv='rand', block_recv='rand'), dict(block_recv=[1])]
    for i, s in enumerate(S):
        s['seed'] = 1000 + i
        s['api'] = 'fault'
    return S


def run_fault(fl, role, index, inject, after, seed):
    """Returns X's outcome dict, or None if X never reaches send number `index`."""
    epr = EpRandom(seed).install()
    clock = FakeClock().install()
    try:
        csock, ssock = FaultSock('c2s'), FaultSock('s2c')
        csock.peer, ssock.peer = ssock, csock
        xsock = csock if role == 'client' else ssock
        xsock.fail_at, xsock.inject, xsock.after = index, INJECT[inject], after
        client, server = TLSConnection(csock), TLSConnection(ssock)
        ver = fl['ver']
        cset, sset = settings(minv=ver, maxv=ver), settings(minv=ver, maxv=ver)
        if ver == (3, 4):
            sset.ticketKeys = [b'\x33' * 32]
        if fl.get('hrr'):
            cset.keyShares = []
        chain, key = creds('rsa')
        ckw = dict(settings=cset, async_=True)
        skw = dict(certChain=chain, privateKey=key, settings=sset)
        if fl.get('clientcert'):
            ckw['certChain'], ckw['privateKey'] = creds('client-rsa')
            skw['reqCert'] = True
        X = client if role == 'client' else server

        def alive(g):
            for v in g:
                if xsock.dead:
                    return
                yield v

        def whole(conn, tag, hs, first_writer):
            for v in hs:
                yield v
            # after the handshake: a write and a read each, so that post-handshake sends can fail too
            if first_writer:
                for v in conn.writeAsync(b'hello'):
                    yield v
            for v in conn.readAsync(5, 5):
                if isinstance(v, int):
                    yield v
                else:
                    break
            if not first_writer:
                for v in conn.writeAsync(b'world'):
                    yield v
            for v in conn.closeAsync():
                yield v
        gc = tagged(whole(client, 'client', client.handshakeClientCert(**ckw), True), 'client', epr)
        gs = tagged(whole(server, 'server', server.handshakeServerAsync(**skw), False), 'server', epr)
        gens = [gc, alive(gs)] if role == 'client' else [alive(gc), gs]

        def sig():
            return (len(csock.inbuf), len(ssock.inbuf), len(csock.sent_log), len(ssock.sent_log), xsock.n_recv if xsock.dead and xsock.inbuf else 0)
        r = drive2(gens, sig=sig)
        if not xsock.dead:
            return None
        xr = r[0] if role == 'client' else r[1]
        s = X.session
        return dict(X=classify(xr), closed=bool(X.closed), resumable=None if s is None else bool(s.resumable),
                    # bytes not consumed by the TLS layer: still in the pipe or in BufferedSocket's read-ahead
                    unread=len(xsock.inbuf) + len(getattr(X.sock, '_read_buffer', b'')))
    finally:
        clock.uninstall()
        epr.uninstall()


def worker_fault(task):
    fl, role, injects, scheds, seed, max_index = task
    out = []
    try:
        for index in range(max_index):
            reached = True
            for inj in injects:
                base = run_fault(fl, role, index, inj, None, seed)
                if base is None:
                    reached = False
                    break
                results = []
                for s in scheds:
                    o = run_fault(fl, role, index, inj, s, seed)
                    d = [(k, 0, base.get(k), (o or {}).get(k)) for k in sorted(base) if base.get(k) != (o or {}).get(k)]
                    s2 = dict(s, fault=dict(flavour=fl, role=role, index=index, inject=inj))
                    results.append((s2, d, o if d else None, None))
                out.append(dict(name='fault-%s-%s-send%d-%s' % (fl['name'], role, index, inj), seed=seed, deterministic=False,
                                base=[dict(base, hs=(base['X'], base['X']))], base_diff=[], results=results,
                                fault=dict(flavour=fl, role=role, index=index, inject=inj)))
            if not reached:
                break
    except Exception:  # noqa
        import traceback
        out.append(dict(name='fault-%s-%s' % (fl['name'], role), error=traceback.format_exc()))
    return out
