"""C18 helpers: running histories / schedules on the real SessionCache, Python_RSAKey and
VerifierDB, and the direct property oracles (written from the property text, independent of
the code under test)."""
import itertools
import os

from c18_sched import Sched, CoopLock

EXC_COQ = {'KeyError': 'KeyError', 'IndexError': 'IndexError', 'TypeError': 'TypeError',
           'ZeroDivisionError': 'ZeroDivisionError', 'ValueError': 'ValueError',
           'AssertionError': 'AssertionError', 'AttributeError': 'AttributeError'}


# ------------------------------------------------------------------ clock
class Clock(object):
    """stands in for the `time` module inside tlslite.sessioncache.  `who` (optional) names the
    calling thread; the value every thread read last is remembered (each cache call reads once)."""

    def __init__(self, now=0, tick=False):
        self.now = now
        self.tick = tick
        self.who = None
        self.last_read = {}

    def advance(self, d):
        self.now += d

    def time(self):
        if self.tick:
            self.now += 1
        self.last_read[self.who() if self.who is not None else None] = self.now
        return self.now


class clock_installed(object):
    def __init__(self, clock):
        self.clock = clock

    def __enter__(self):
        import tlslite.sessioncache as sc
        self.mod = sc
        self.saved = sc.time
        sc.time = self.clock
        return self.clock

    def __exit__(self, *a):
        self.mod.time = self.saved


# ------------------------------------------------------------------ sessions / ids
def id_bytes(k):
    return bytearray(b'ID%030d' % k)


def id_of(b):
    return None if b is None else int(bytes(b)[2:])


class Sessions(object):
    """handle -> real tlslite Session object (valid() is the real method)"""

    def __init__(self):
        self.objs = {}

    def get(self, h):
        if h not in self.objs:
            from tlslite.session import Session
            s = Session()
            s.sessionID = bytearray(b'x')
            s.resumable = True
            s.c18_handle = h
            self.objs[h] = s
        return self.objs[h]


SCALE = 8        # sequential histories: clock values and maxAge are given in ticks of 1/8 s (exact as floats)


def cache_state(cache, scale=1):
    d = sorted((id_of(k), v.c18_handle) for k, v in cache.entriesDict.items())
    lst = [None if a is None else (id_of(a), int(round(b * scale))) for a, b in cache.entriesList]
    return (d, lst, cache.firstIndex, cache.lastIndex)


MODELLED_ATTRS = {'lock', 'entriesDict', 'entriesSlot', 'entriesList', 'firstIndex', 'lastIndex', 'maxAge'}


def unmodelled_attributes():
    """instance attributes of a SessionCache that Model/C18_Cache.v has no field for"""
    from tlslite.sessioncache import SessionCache
    c = SessionCache(maxEntries=3, maxAge=5)
    return sorted(set(vars(c)) - MODELLED_ATTRS), sorted(MODELLED_ATTRS - set(vars(c)))


def slot_state(cache):
    return sorted((id_of(k), v) for k, v in getattr(cache, 'entriesSlot', {}).items())


def do_cache_op(cache, sessions, op):
    try:
        if op[0] == 'get':
            return ('ret', cache[id_bytes(op[1])].c18_handle)
        if op[0] == 'put':
            cache[id_bytes(op[1])] = sessions.get(op[2])
            return ('ret', None)
        if op[0] == 'purge':
            cache._purge()
            return ('ret', None)
        if op[0] == 'valid':
            sessions.get(op[1]).resumable = bool(op[2])
            return ('ret', None)
        raise ValueError(op)
    except Exception as e:      # noqa
        return ('exc', type(e).__name__)


def run_history_impl(n, max_age, hist):
    """hist: [(t, op)], op = ('get',id) | ('put',id,s) | ('purge',) | ('valid',s,b).  t and max_age are in
    ticks of 1/SCALE s: the real class sees the REAL-VALUED clock t/SCALE (steps below one second, zero steps,
    exactly maxAge, ...) and maxAge = max_age/SCALE.  Returns [(dict, slots, first, last, outcome, slotmap)]
    after every call, timestamps converted back to ticks."""
    from tlslite.sessioncache import SessionCache
    sessions = Sessions()
    out = []
    with clock_installed(Clock()) as clk:
        ma = max_age // SCALE if max_age % SCALE == 0 else max_age / float(SCALE)
        cache = SessionCache(maxEntries=n, maxAge=ma)
        for t, op in hist:
            clk.now = t / float(SCALE)
            r = do_cache_op(cache, sessions, op)
            out.append(cache_state(cache, SCALE) + (r, slot_state(cache)))
    return out


# ------------------------------------------------------------------ direct property oracle
def spec_outcomes(n, max_age, hist):
    """The property text: a lookup returns the session last stored under the ID iff it is
    younger than the age limit, still valid, and not evicted by newer entries (the cache keeps
    maxEntries-1 entries); stores and purges never fail; nothing else is raised."""
    log = []            # (id, session, t), oldest first
    invalid = set()
    out = []
    for t, op in hist:
        if op[0] == 'put':
            log.append((op[1], op[2], t))
            out.append(('ret', None))
        elif op[0] == 'get':
            pos = [i for i, e in enumerate(log) if e[0] == op[1]]
            if not pos:
                out.append(('exc', 'KeyError'))
                continue
            i = pos[-1]
            _, s, ts = log[i]
            newer = len(log) - 1 - i
            if t - ts <= max_age and s not in invalid and newer < n - 1:
                out.append(('ret', s))
            else:
                out.append(('exc', 'KeyError'))
        elif op[0] == 'valid':
            (invalid.discard if op[2] else invalid.add)(op[1])
            out.append(('ret', None))
        else:
            out.append(('ret', None))
    return out


def has_dup_puts(hist):
    ids = [op[1] for _, op in hist if op[0] == 'put']
    return len(ids) != len(set(ids))


def check_history(n, max_age, hist, obs):
    """None, or (kind, index, text) for the first call on which the property fails"""
    want = spec_outcomes(n, max_age, hist)
    for i, ((t, op), o, w) in enumerate(zip(hist, obs, want)):
        r = o[4]
        if r[0] == 'exc' and not (op[0] == 'get' and r[1] == 'KeyError'):
            return ('internal-error', i, '%s raised %s' % (op[0], r[1]))
        if r != w:
            if w[0] == 'ret' and op[0] == 'get':
                return ('live-entry-lost', i, 'get(%d) gave %r, the live entry is session %r' % (op[1], r, w[1]))
            return ('wrong-entry-returned', i, 'get(%d) gave %r, expected %r' % (op[1], r, w))
        if len(o[0]) > max(n, 0):
            return ('size-bound', i, 'cache holds %d entries, maxEntries=%d' % (len(o[0]), n))
    return None


def shrink_history(n, max_age, hist, kind):
    """greedy one-at-a-time removal keeping the same kind of failure"""
    def fails(h):
        try:
            f = check_history(n, max_age, h, run_history_impl(n, max_age, h))
        except Exception:       # noqa
            return False
        return f is not None and f[0] == kind
    cur = list(hist)
    changed = True
    while changed:
        changed = False
        for i in range(len(cur) - 1, -1, -1):
            cand = cur[:i] + cur[i + 1:]
            if cand and fails(cand):
                cur = cand
                changed = True
    return cur


# ------------------------------------------------------------------ Coq literals
def z(n):
    return str(n) if n >= 0 else '(%d)' % n


def op_lit(op):
    if op[0] == 'get':
        return 'Get %s' % z(op[1])
    if op[0] == 'put':
        return 'Put %s %s' % (z(op[1]), z(op[2]))
    if op[0] == 'purge':
        return 'Purge'
    return 'SetValid %s %s' % (z(op[1]), 'true' if op[2] else 'false')


def hist_lit(hist):
    return '[' + ';'.join('(%s, %s)' % (z(t), op_lit(op)) for t, op in hist) + ']'


def outcome_lit(r):
    if r[0] == 'ret':
        return 'ORet None' if r[1] is None else 'ORet (Some %s)' % z(r[1])
    return 'OExc %s' % EXC_COQ.get(r[1], '(OtherExn 0)')


def obs_lit(o):
    d, lst, f, la, r, sl = o
    dl = '[' + ';'.join('(%s,%s)' % (z(k), z(v)) for k, v in d) + ']'
    sll = '[' + ';'.join('(%s,%s)' % (z(k), z(v)) for k, v in sl) + ']'
    ll = '[' + ';'.join('None' if s is None else 'Some (%s,%s)' % (z(s[0]), z(int(s[1]))) for s in lst) + ']'
    return '(%s, %s, %s, %s, %s, %s)' % (dl, sll, ll, z(f), z(la), outcome_lit(r))


def case_lit(n, max_age, hist, obs):
    return '(%s, %s, %s, [%s])' % (z(n), z(max_age), hist_lit(hist), ';'.join(obs_lit(o) for o in obs))


# ------------------------------------------------------------------ interleavings
def merges(seqs):
    """all interleavings of the sequences that keep each sequence's order: lists of thread numbers"""
    counts = [len(s) for s in seqs]

    def rec(rem):
        if not any(rem):
            yield []
            return
        for i, c in enumerate(rem):
            if c:
                rem2 = list(rem)
                rem2[i] -= 1
                for tail in rec(rem2):
                    yield [i] + tail
    return rec(counts)


def order_from_lock(lock_order, seqs):
    need = [len(s) for s in seqs]
    got = [lock_order.count(i) for i in range(len(seqs))]
    return list(lock_order) if got == need else None


# ------------------------------------------------------------------ concurrent: SessionCache
def run_cache_schedule(scn, preempts, opcode=False):
    """scn: dict(n, max_age, pre=[op...], threads=[[op...]...], dt=1, switch_jump=0).
    op = ('get',id) | ('put',id,s) | ('sleep',d).  The fake clock advances by 1 on every read, by
    `dt` at every pre-emption point (traced line / bytecode) and by `switch_jump` at every context
    switch, so time passes INSIDE calls and while a thread is descheduled; ('sleep', d) lets d pass.
    The clock value every call read is recorded."""
    from tlslite.sessioncache import SessionCache
    sessions = Sessions()
    with clock_installed(Clock(tick=True)) as clk:
        cache = SessionCache(maxEntries=scn['n'], maxAge=scn['max_age'])
        cache.lock = CoopLock()
        pre_hist = []
        for op in scn['pre']:
            if op[0] == 'sleep':
                clk.advance(op[1])
                continue
            do_cache_op(cache, sessions, op)
            pre_hist.append((clk.last_read.get(None, clk.now), op))
        results = [[] for _ in scn['threads']]
        times = [[] for _ in scn['threads']]
        sched = Sched(len(scn['threads']), preempts, traced=('tlslite/sessioncache.py',), opcode=opcode)
        sched.on_point = lambda: clk.advance(scn.get('dt', 1))
        sched.on_switch = lambda: clk.advance(scn.get('switch_jump', 0))
        clk.who = sched.tid
        cache.lock.sched = sched

        def body(i):
            def f():
                for op in scn['threads'][i]:
                    if op[0] == 'sleep':
                        clk.advance(op[1])
                        continue
                    clk.last_read.pop(i, None)
                    results[i].append(do_cache_op(cache, sessions, op))
                    times[i].append(clk.last_read.get(i))
            return f
        sched.run([body(i) for i in range(len(scn['threads']))])
        cache.lock.sched = None
        clk.who = None
        return {'results': results, 'times': times, 'state': cache_state(cache), 'sched': sched,
                'pre_hist': pre_hist, 'clock': clk.now, 'lock_held': cache.lock.held}


def cache_ops(scn):
    """the cache calls of every thread (sleeps removed)"""
    return [[op for op in th if op[0] != 'sleep'] for th in scn['threads']]


def merged_history(scn, run, order):
    """the history of an order of the calls, every call at the clock value it actually read"""
    ops = cache_ops(scn)
    hist = list(run['pre_hist'])
    idx = [0] * len(ops)
    who = []
    for i in order:
        t = run['times'][i][idx[i]]
        hist.append((t if t is not None else (hist[-1][0] if hist else 0), ops[i][idx[i]]))
        idx[i] += 1
        who.append(i)
    return hist, who


def window_consistent(n, state):
    """structural invariant: the dict holds exactly the IDs that occur in the slots between
    firstIndex and lastIndex (an ID stored again occupies several slots), at most maxEntries-1"""
    d, lst, f, la = state
    if n <= 0:
        return True
    cnt = (la - f) % n
    ids = []
    for j in range(cnt):
        s = lst[(f + j) % n]
        if s is None:
            return False
        ids.append(s[0])
    return sorted(set(ids)) == [k for k, _ in d] and len(d) <= n - 1


def check_cache_run(scn, run):
    """None or (kind, text).  Property: no internal error, no deadlock, never an entry older than
    maxAge (by the clock values the store and the lookup actually read), and the per-thread results
    are those the sequential specification gives for SOME order of the whole calls, every call taken
    at the clock value it read."""
    sched = run['sched']
    ops = cache_ops(scn)
    if sched.failure or sched.deadlock or any(e is not None for e in sched.errors) or run['lock_held']:
        return ('deadlock-or-crash', 'failure=%r deadlock=%r errors=%r lock_held=%r' % (
            sched.failure, sched.deadlock, [repr(e) for e in sched.errors], run['lock_held']))
    for i, rs in enumerate(run['results']):
        for op, r in zip(ops[i], rs):
            if r[0] == 'exc' and not (op[0] == 'get' and r[1] == 'KeyError'):
                return ('internal-error', 'thread %d: %s raised %s' % (i, op[0], r[1]))
    n = scn['n']
    if len(run['state'][0]) > max(n, 0):
        return ('size-bound', 'cache holds %d entries, maxEntries=%d' % (len(run['state'][0]), n))
    # never older than maxAge: clock value read by the store of the returned session vs by the lookup
    stored_at = {}
    for t, op in run['pre_hist']:
        if op[0] == 'put':
            stored_at[op[2]] = t
    for i in range(len(ops)):
        for op, t in zip(ops[i], run['times'][i]):
            if op[0] == 'put':
                stored_at[op[2]] = t
    for i in range(len(ops)):
        for op, r, t in zip(ops[i], run['results'][i], run['times'][i]):
            if op[0] == 'get' and r[0] == 'ret' and r[1] in stored_at and t is not None \
                    and stored_at[r[1]] is not None and t - stored_at[r[1]] > scn['max_age']:
                return ('expired-entry-returned',
                        'thread %d: get(%d) at clock %s returned session %d stored at clock %s: age %s > maxAge %s'
                        % (i, op[1], t, r[1], stored_at[r[1]], t - stored_at[r[1]], scn['max_age']))
    cands = []
    lo = order_from_lock(sched.lock_order, ops)
    if lo is not None:
        cands.append(lo)
    cands = itertools.chain(cands, merges(ops))
    npre = len(run['pre_hist'])
    for order in cands:
        hist, who = merged_history(scn, run, order)
        want = spec_outcomes(n, scn['max_age'], hist)[npre:]
        per = [[] for _ in ops]
        for i, w in zip(who, want):
            per[i].append(w)
        if per == run['results']:
            if not window_consistent(n, run['state']):
                return ('state-corrupt', 'final dict/list/indices inconsistent: %r' % (run['state'],))
            return None
    return ('not-serializable', 'results %r (clock values read: %r) equal the specification for no sequential '
            'order of the calls' % (run['results'], run['times']))


# ------------------------------------------------------------------ concurrent: RSA
class DetRandom(object):
    def __init__(self, rng):
        self.rng = rng

    def __call__(self, n):
        return bytearray(self.rng.getrandbits(8) for _ in range(n))


class rng_installed(object):
    def __init__(self, rng):
        self.f = DetRandom(rng)

    def __enter__(self):
        from tlslite.utils import cryptomath
        self.mod = cryptomath
        self.saved = cryptomath.getRandomBytes
        cryptomath.getRandomBytes = self.f
        return self

    def __exit__(self, *a):
        self.mod.getRandomBytes = self.saved


def small_key():
    from tlslite.utils.python_rsakey import Python_RSAKey
    p, q = (1 << 61) - 1, (1 << 89) - 1          # Mersenne primes
    return Python_RSAKey(n=p * q, e=65537, p=p, q=q)


def real_key():
    import os
    from tlslite.api import parsePEMKey
    repo = os.path.realpath(os.environ.get('VERIF_REPO', '/repo'))
    with open(os.path.join(repo, 'tests', 'serverX509Key.pem')) as f:
        return parsePEMKey(f.read(), private=True, implementations=['python'])


def key_hypotheses(key, rng, samples=8):
    """H-rsa-key on the user's key: CRT parameters consistent and x^(e*d) = x (sampled)"""
    n, e, d, p, q = int(key.n), int(key.e), int(key.d), int(key.p), int(key.q)
    ok = p * q == n and int(key.dP) == d % (p - 1) and int(key.dQ) == d % (q - 1) and (int(key.qInv) * q) % p == 1
    for _ in range(samples):
        x = rng.randrange(n)
        ok = ok and pow(x, e * d, n) == x and int(key._rawPrivateKeyOpHelper(x)) == pow(x, d, n)
    return ok


def run_rsa_schedule(key, msgs, preempts, seed, opcode=False, fresh=True):
    """msgs: per thread a list of integers; every thread calls key._rawPrivateKeyOp on each"""
    import random
    if fresh:
        key.blinder = 0
        key.unblinder = 0
    key._lock = CoopLock()
    results = [[] for _ in msgs]
    sched = Sched(len(msgs), preempts, traced=('tlslite/utils/python_rsakey.py',), opcode=opcode)
    key._lock.sched = sched

    def body(i):
        def f():
            for m in msgs[i]:
                try:
                    results[i].append(int(key._rawPrivateKeyOp(m)))
                except Exception as e:      # noqa
                    results[i].append('exc:' + type(e).__name__)
        return f
    with rng_installed(random.Random(seed)):
        sched.run([body(i) for i in range(len(msgs))])
    key._lock.sched = None
    return {'results': results, 'sched': sched, 'lock_held': key._lock.held,
            'pair': (int(key.blinder), int(key.unblinder))}


def check_rsa_run(key, msgs, run):
    sched = run['sched']
    if sched.failure or sched.deadlock or any(e is not None for e in sched.errors) or run['lock_held']:
        return ('deadlock-or-crash', 'failure=%r deadlock=%r errors=%r' % (
            sched.failure, sched.deadlock, [repr(e) for e in sched.errors]))
    n, e, d = int(key.n), int(key.e), int(key.d)
    for i, (ms, rs) in enumerate(zip(msgs, run['results'])):
        for m, r in zip(ms, rs):
            if r != pow(m, d, n):
                return ('wrong-result', 'thread %d: _rawPrivateKeyOp(%d) = %r, m^d mod n = %d' % (i, m, r, pow(m, d, n)))
    b, u = run['pair']
    if (b * pow(u, e, n)) % n != 1:
        return ('blinding-pair-broken', 'blinder*unblinder^e mod n = %d after the run' % ((b * pow(u, e, n)) % n))
    return None


# ------------------------------------------------------------------ concurrent: the whole RSA key API
# Independent reference (RFC 8017), written without tlslite code: what each call must return for ITS OWN input.
DIGESTINFO = {
    'sha1': bytes.fromhex('3021300906052b0e03021a05000414'),
    'sha256': bytes.fromhex('3031300d060960864801650304020105000420'),
    'sha384': bytes.fromhex('3041300d060960864801650304020205000430'),
    'sha512': bytes.fromhex('3051300d060960864801650304020305000440'),
}


def api_key():
    from tlslite.utils.python_rsakey import Python_RSAKey
    p, q = (1 << 521) - 1, (1 << 607) - 1            # Mersenne primes: a 1128-bit key, no key generation needed
    return Python_RSAKey(n=p * q, e=65537, p=p, q=q)


def _klen(key):
    return (int(key.n).bit_length() + 7) // 8


def emsa_pkcs1(key, t):
    k = _klen(key)
    return b'\x00\x01' + b'\xff' * (k - len(t) - 3) + b'\x00' + bytes(t)


def pss_verify_oracle(key, mhash, sig, halg, slen):
    import hashlib
    n, e = int(key.n), int(key.e)
    k = _klen(key)
    if len(sig) != k:
        return False
    em_bits = n.bit_length() - 1
    em_len = (em_bits + 7) // 8
    m = pow(int.from_bytes(bytes(sig), 'big'), e, n)
    try:
        em = m.to_bytes(em_len, 'big')
    except OverflowError:
        return False
    hl = hashlib.new(halg).digest_size
    if em_len < hl + slen + 2 or em[-1] != 0xbc:
        return False
    masked, h = em[:em_len - hl - 1], em[em_len - hl - 1:-1]
    zero_bits = 8 * em_len - em_bits
    if zero_bits and masked[0] >> (8 - zero_bits):
        return False
    mask = b''
    c = 0
    while len(mask) < len(masked):
        mask += hashlib.new(halg, h + c.to_bytes(4, 'big')).digest()
        c += 1
    db = bytearray(x ^ y for x, y in zip(masked, mask))
    if zero_bits:
        db[0] &= 0xff >> zero_bits
    ps_len = em_len - hl - slen - 2
    if any(db[:ps_len]) or db[ps_len] != 1:
        return False
    salt = bytes(db[ps_len + 1:])
    return hashlib.new(halg, b'\x00' * 8 + bytes(mhash) + salt).digest() == h


def api_prepare(key, op, rng):
    """fill in the inputs that need the key (ciphertexts, signatures to verify)"""
    import hashlib
    n, e, d = int(key.n), int(key.e), int(key.d)
    k = _klen(key)
    if op[0] == 'decrypt':
        m = bytes(op[1])
        ps = bytes(rng.randrange(1, 256) for _ in range(k - 3 - len(m)))
        em = b'\x00\x02' + ps + b'\x00' + m
        return ('decrypt', m, pow(int.from_bytes(em, 'big'), e, n).to_bytes(k, 'big'))
    if op[0] == 'hashAndVerify':
        m, halg, good = bytes(op[1]), op[2], op[3]
        em = emsa_pkcs1(key, DIGESTINFO[halg] + hashlib.new(halg, m).digest())
        sig = bytearray(pow(int.from_bytes(em, 'big'), d, n).to_bytes(k, 'big'))
        if not good:
            sig[-1] ^= 1
        return ('hashAndVerify', m, halg, good, bytes(sig))
    return op


def do_api_op(key, op):
    try:
        if op[0] == 'sign':
            return ('ret', bytes(key.sign(bytearray(op[1]), 'pkcs1', op[2])))
        if op[0] == 'hashAndSign':
            return ('ret', bytes(key.hashAndSign(bytearray(op[1]), op[2], op[3], op[4] if len(op) > 4 else 0)))
        if op[0] == 'decrypt':
            r = key.decrypt(bytearray(op[2]))
            return ('ret', None if r is None else bytes(r))
        if op[0] == 'encrypt':
            return ('ret', bytes(key.encrypt(bytearray(op[1]))))
        if op[0] == 'hashAndVerify':
            return ('ret', bool(key.hashAndVerify(bytearray(op[4]), bytearray(op[1]), 'PKCS1', op[2])))
        raise ValueError(op)
    except Exception as e:      # noqa
        return ('exc', type(e).__name__)


def api_expected(key, op, r):
    """None if r is what the call must return for its own input, else a text"""
    import hashlib
    n, e, d = int(key.n), int(key.e), int(key.d)
    k = _klen(key)
    if r[0] != 'ret':
        return 'raised %s' % r[1]
    v = r[1]
    if op[0] in ('sign', 'hashAndSign') and not (op[0] == 'hashAndSign' and op[2].upper() == 'PSS'):
        if op[0] == 'sign':
            t = (DIGESTINFO[op[2]] if op[2] else b'') + bytes(op[1])
        else:
            t = DIGESTINFO[op[3]] + hashlib.new(op[3], bytes(op[1])).digest()
        want = pow(int.from_bytes(emsa_pkcs1(key, t), 'big'), d, n).to_bytes(k, 'big')
        if v != want:
            got = pow(int.from_bytes(v, 'big'), e, n).to_bytes(k, 'big')
            return 'signature is not the signature of this thread\'s message: it opens to ...%s, expected ...%s' % (
                got[-8:].hex(), emsa_pkcs1(key, t)[-8:].hex())
        return None
    if op[0] == 'hashAndSign':
        mh = hashlib.new(op[3], bytes(op[1])).digest()
        return None if pss_verify_oracle(key, mh, v, op[3], op[4] if len(op) > 4 else 0) else \
            'PSS signature does not verify for this thread\'s message'
    if op[0] == 'decrypt':
        return None if v == op[1] else 'decrypt returned %r, the plaintext is %r' % (v, op[1])
    if op[0] == 'encrypt':
        em = pow(int.from_bytes(v, 'big'), d, n).to_bytes(k, 'big')
        ok = em[:2] == b'\x00\x02' and 0 in em[2:] and em.index(0, 2) >= 10 and em[em.index(0, 2) + 1:] == bytes(op[1])
        return None if ok else 'ciphertext does not decrypt to this thread\'s plaintext'
    if op[0] == 'hashAndVerify':
        return None if v == op[3] else 'hashAndVerify returned %r, expected %r' % (v, op[3])
    return 'unknown op'


class rng_installed_api(rng_installed):
    """also the copies of getRandomBytes that rsakey.py / python_rsakey.py imported with `from ... import *`"""

    def __enter__(self):
        rng_installed.__enter__(self)
        from tlslite.utils import rsakey, python_rsakey
        self.more = [(m, m.getRandomBytes) for m in (rsakey, python_rsakey) if hasattr(m, 'getRandomBytes')]
        for m, _ in self.more:
            m.getRandomBytes = self.f
        return self

    def __exit__(self, *a):
        for m, f in self.more:
            m.getRandomBytes = f
        rng_installed.__exit__(self, *a)


def run_api_schedule(key, threads, preempts, seed, opcode=False):
    """threads: per thread a list of prepared API calls on the one shared key; pre-emption points at every
    line (bytecode) of rsakey.py and python_rsakey.py"""
    import random
    key.blinder = 0
    key.unblinder = 0
    key._lock = CoopLock()
    # state a previous run may have left on the object must not leak into this one
    base = getattr(key, '_c18_attrs', None)
    if base is None:
        key._c18_attrs = base = set(vars(key)) | {'_c18_attrs'}
    for a in list(vars(key)):
        if a not in base:
            delattr(key, a)
    if hasattr(key, '_key_hash'):
        key._key_hash = None
    results = [[] for _ in threads]
    sched = Sched(len(threads), preempts, traced=('tlslite/utils/rsakey.py', 'tlslite/utils/python_rsakey.py'),
                  opcode=opcode)
    key._lock.sched = sched

    def body(i):
        def f():
            for op in threads[i]:
                results[i].append(do_api_op(key, op))
        return f
    with rng_installed_api(random.Random(seed)):
        sched.run([body(i) for i in range(len(threads))])
    key._lock.sched = None
    return {'results': results, 'sched': sched, 'lock_held': key._lock.held,
            'pair': (int(key.blinder), int(key.unblinder))}


def check_api_run(key, threads, run):
    sched = run['sched']
    if sched.failure or sched.deadlock or any(e is not None for e in sched.errors) or run['lock_held']:
        return ('deadlock-or-crash', 'failure=%r deadlock=%r errors=%r' % (
            sched.failure, sched.deadlock, [repr(e) for e in sched.errors]))
    for i, (ops, rs) in enumerate(zip(threads, run['results'])):
        for op, r in zip(ops, rs):
            bad = api_expected(key, op, r)
            if bad:
                return ('wrong-result:%s' % op[0], 'thread %d: %s(%s...): %s' % (i, op[0], bytes(op[1])[:8].hex(), bad))
    b, u = run['pair']
    n, e = int(key.n), int(key.e)
    if b and (b * pow(u, e, n)) % n != 1:
        return ('blinding-pair-broken', 'blinder*unblinder^e mod n != 1 after the run')
    return None


# ------------------------------------------------------------------ concurrent / sequential: VerifierDB
def make_entries(k=3):
    from tlslite.verifierdb import VerifierDB
    return [VerifierDB.makeVerifier('user%d' % i, 'pw%d' % i, 1024) for i in range(k)]


def do_db_op(db, entries, op):
    try:
        if op[0] == 'set':
            db[op[1]] = entries[op[2]]
            return ('ret', None)
        if op[0] == 'get':
            return ('ret', entries.index(db[op[1]]))
        if op[0] == 'del':
            del db[op[1]]
            return ('ret', None)
        if op[0] == 'in':
            return ('ret', op[1] in db)
        if op[0] == 'keys':
            return ('ret', sorted(k.decode('utf-8') if isinstance(k, bytes) else k for k in db.keys()))
        raise ValueError(op)
    except Exception as e:      # noqa
        return ('exc', type(e).__name__)


def db_spec(ref, op):
    """a verifier database is a dictionary"""
    if op[0] == 'set':
        ref[op[1]] = op[2]
        return ('ret', None)
    if op[0] == 'get':
        return ('ret', ref[op[1]]) if op[1] in ref else ('exc', 'KeyError')
    if op[0] == 'del':
        if op[1] in ref:
            del ref[op[1]]
            return ('ret', None)
        return ('exc', 'KeyError')
    if op[0] == 'in':
        return ('ret', op[1] in ref)
    return ('ret', sorted(ref))


def ondisk_keys_work():
    """does keys() work at all on an on-disk database (single thread)?  (It raised TypeError on Python 3.)"""
    import shutil
    import tempfile
    from tlslite.verifierdb import VerifierDB
    d = tempfile.mkdtemp(prefix='c18db-')
    try:
        db = VerifierDB(os.path.join(d, 'v.db'))
        db.create()
        db['u'] = make_entries(1)[0]
        try:
            return sorted(db.keys()) in (['u'], [b'u']), None
        except Exception as e:      # noqa
            return False, '%s: %s' % (type(e).__name__, e)
        finally:
            db.db.close()
    finally:
        shutil.rmtree(d, ignore_errors=True)


def run_db_schedule(entries, pre, threads, preempts, opcode=False, ondisk=False):
    """ondisk: the database is a dbm file in a fresh temporary directory (removed afterwards); the pure-Python
    backend module (dbm.dumb here) is traced too, so pre-emption points lie inside the backend's store, delete
    and sync/commit code; after the run the file is reopened and read back."""
    import shutil
    import sys
    import tempfile
    from tlslite.verifierdb import VerifierDB
    tmpdir = None
    traced = ['tlslite/basedb.py', 'tlslite/verifierdb.py']
    try:
        if ondisk:
            tmpdir = tempfile.mkdtemp(prefix='c18db-')
            db = VerifierDB(os.path.join(tmpdir, 'v.db'))
        else:
            db = VerifierDB()
        db.create()
        if ondisk:
            bf = getattr(sys.modules.get(type(db.db).__module__), '__file__', '') or ''
            if bf.endswith('.py'):
                traced.append(bf)
        db.lock = CoopLock()
        for op in pre:
            do_db_op(db, entries, op)
        results = [[] for _ in threads]
        sched = Sched(len(threads), preempts, traced=tuple(traced), opcode=opcode)
        db.lock.sched = sched

        def body(i):
            def f():
                for op in threads[i]:
                    results[i].append(do_db_op(db, entries, op))
            return f
        sched.run([body(i) for i in range(len(threads))])
        db.lock.sched = None

        def name(k):
            return k.decode('utf-8') if isinstance(k, bytes) else k
        final = {}
        reopened = None
        try:
            for k in list(db.db.keys()):
                if not name(k).startswith('--Reserved--'):
                    final[name(k)] = entries.index(db._getItem(k, db.db[k]))
        except Exception as e:      # noqa
            final = {'<unreadable>': '%s: %s' % (type(e).__name__, e)}
        # quiescent lookups through the public interface, after every thread has finished (twice: a first
        # lookup may itself fill a cache)
        names = sorted(set(op[1] for op in list(pre) + [o for th in threads for o in th] if len(op) > 1))
        with_keys = any(op[0] == 'keys' for th in threads for op in th) or not ondisk
        post = []
        if not db.lock.held:
            for _ in range(2):
                for k in names:
                    post.append((('get', k), do_db_op(db, entries, ('get', k))))
                    post.append((('in', k), do_db_op(db, entries, ('in', k))))
            if with_keys:
                post.append((('keys',), do_db_op(db, entries, ('keys',))))
        if ondisk and not db.lock.held:
            # what is on the disk: close, reopen the file with a new object, read everything back
            try:
                try:
                    db.db.close()
                except Exception:       # noqa
                    pass
                db2 = VerifierDB(os.path.join(tmpdir, 'v.db'))
                db2.open()
                reopened = {}
                for k in list(db2.db.keys()):
                    if not name(k).startswith('--Reserved--'):
                        reopened[name(k)] = entries.index(db2[name(k)])
                try:
                    db2.db.close()
                except Exception:       # noqa
                    pass
            except Exception as e:      # noqa
                reopened = {'<unreadable>': '%s: %s' % (type(e).__name__, e)}
        return {'results': results, 'sched': sched, 'final': final, 'post': post, 'reopened': reopened,
                'lock_held': db.lock.held}
    finally:
        if tmpdir is not None:
            try:
                db.db.close()
            except Exception:       # noqa
                pass
            shutil.rmtree(tmpdir, ignore_errors=True)


def check_db_run(pre, threads, run):
    sched = run['sched']
    if sched.failure or sched.deadlock or any(e is not None for e in sched.errors) or run['lock_held']:
        return ('deadlock-or-crash', 'failure=%r deadlock=%r errors=%r' % (
            sched.failure, sched.deadlock, [repr(e) for e in sched.errors]))
    for i, rs in enumerate(run['results']):
        for op, r in zip(threads[i], rs):
            if r[0] == 'exc' and not (op[0] in ('get', 'del') and r[1] == 'KeyError'):
                return ('internal-error:%s:%s' % (op[0], r[1]), 'thread %d: %s raised %s' % (i, op[0], r[1]))
    cands = []
    stale = None
    lo = order_from_lock(sched.lock_order, threads)
    if lo is not None:
        cands.append(lo)
    for order in itertools.chain(cands, merges(threads)):
        ref = {}
        for op in pre:
            db_spec(ref, op)
        idx = [0] * len(threads)
        per = [[] for _ in threads]
        for i in order:
            per[i].append(db_spec(ref, threads[i][idx[i]]))
            idx[i] += 1
        if per == run['results'] and ref == run['final']:
            if run.get('reopened') is not None and run['reopened'] != ref:
                stale = stale or ('disk-differs-after-reopen', 'after closing and reopening the file it holds %r, the '
                                  'linearized database holds %r (thread results %r)' % (run['reopened'], ref, run['results']))
                continue
            # quiescence: with all threads finished every lookup returns the last stored value
            for op, r in run.get('post', []):
                w = db_spec(ref, op)
                if r != w:
                    stale = stale or ('stale-entry-after-quiescence',
                                      'after all threads finished %r gave %r, the database holds %r '
                                      '(thread results %r)' % (op, r, w, run['results']))
                    break
            else:
                return None
    if stale:
        return stale
    return ('not-serializable', 'results %r / final %r equal a dictionary for no sequential order'
            % (run['results'], run['final']))


# ------------------------------------------------------------------ systematic exploration
def explore(runner, nthreads, depth, budget, rng=None, n_random=0):
    """runner(preempts) -> run dict with ['sched'].  Yields (preempts, run).
    depth 1: every hook point x every other thread; depth 2: every pair (budget-capped, then
    sampled with rng); plus n_random random schedules with up to 3 pre-emptions."""
    base = runner(())
    yield (), base
    used = 1
    total = base['sched'].step
    firsts = []
    seen = set()
    for k in range(1, total + 1):
        for tgt in range(nthreads):
            if used >= budget:
                return
            r = runner(((k, tgt),))
            sig = tuple(r['sched'].switches)
            if sig in seen:
                continue
            seen.add(sig)
            used += 1
            firsts.append((k, tgt, r['sched'].step))
            yield ((k, tgt),), r
    if depth >= 2:
        pairs = []
        for k1, t1, tot1 in firsts:
            for k2 in range(k1 + 1, tot1 + 1):
                for t2 in range(nthreads):
                    pairs.append(((k1, t1), (k2, t2)))
        if rng is not None and len(pairs) > budget - used:
            pairs = rng.sample(pairs, max(0, budget - used))
        for pp in pairs:
            if used >= budget:
                return
            r = runner(pp)
            sig = tuple(r['sched'].switches)
            if sig in seen:
                continue
            seen.add(sig)
            used += 1
            yield pp, r
    if rng is not None:
        for _ in range(n_random):
            npre = rng.randrange(1, 4)
            pp = tuple(sorted((rng.randrange(1, total + 1), rng.randrange(nthreads)) for _ in range(npre)))
            yield pp, runner(pp)
