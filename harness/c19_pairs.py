"""C19, second sentence: configuration pairs -> `compatible` (Gallina, Spec/C19_Compat.v, evaluated by
vm_compute) versus a live handshake between two real TLSConnection objects (harness/loop.py).
A pair with compatible = true whose handshake fails is a violation (the pair is the replay);
compatible = false pairs that connect are fine and only counted."""
import copy
import multiprocessing
import os
import random

import vlib
import c19_model as M

KNOWN = [(3, 0), (3, 1), (3, 2), (3, 3), (3, 4)]
# name -> (kind, curve / EdDSA scheme, (certificate file, key file) in /repo/tests)
CREDS = {
    'rsa': ('rsa', None, ('serverX509Cert.pem', 'serverX509Key.pem')),
    'rsapss': ('rsapss', None, ('serverRSAPSSCert.pem', 'serverRSAPSSKey.pem')),
    'ecdsa': ('ecdsa', 'secp256r1', ('serverECCert.pem', 'serverECKey.pem')),
    'ecdsa384': ('ecdsa', 'secp384r1', ('serverP384ECCert.pem', 'serverP384ECKey.pem')),
    'ecdsa521': ('ecdsa', 'secp521r1', ('serverP521ECCert.pem', 'serverP521ECKey.pem')),
    'bp256': ('ecdsa', 'brainpoolP256r1', ('serverBrainpoolP256r1ECCert.pem', 'serverBrainpoolP256r1ECKey.pem')),
    'bp384': ('ecdsa', 'brainpoolP384r1', ('serverBrainpoolP384r1ECCert.pem', 'serverBrainpoolP384r1ECKey.pem')),
    'bp512': ('ecdsa', 'brainpoolP512r1', ('serverBrainpoolP512r1ECCert.pem', 'serverBrainpoolP512r1ECKey.pem')),
    'ed25519': ('eddsa', 'Ed25519', ('serverEd25519Cert.pem', 'serverEd25519Key.pem')),
    'ed448': ('eddsa', 'Ed448', ('serverEd448Cert.pem', 'serverEd448Key.pem')),
    'dsa': ('dsa', None, ('serverDSACert.pem', 'serverDSAKey.pem')),
    'psk': ('psk', None, None),
    'client-rsa': ('rsa', None, ('clientX509Cert.pem', 'clientX509Key.pem')),
    'client-ecdsa': ('ecdsa', 'secp256r1', ('clientECCert.pem', 'clientECKey.pem')),
    'client-ed25519': ('eddsa', 'Ed25519', ('clientEd25519Cert.pem', 'clientEd25519Key.pem')),
    'client-dsa': ('dsa', None, ('clientDSACert.pem', 'clientDSAKey.pem')),
}
_LOADED = {}


def load_cred(name):
    import loop
    if name not in _LOADED:
        c, k = CREDS[name][2]
        _LOADED[name] = (loop.load_chain(c), loop.load_key(k))
    return _LOADED[name]

PSK256 = [(b'shared-identity', bytearray(b'\x5a' * 32))]
PSK384 = [(b'shared-identity-384', bytearray(b'\xa5' * 48), 'sha384')]
RUN = '_%d' % os.getpid()     # concurrent C19 runs must not share coq/_cases file names
IMPORTS = ['Gen.SettingsTables', 'Model.C19_Settings', 'Model.C19_Repo', 'Spec.C19_Domain', 'Spec.C19_Compat']
PREAMBLE = '''
Definition PairT := ((heap * settings) * (heap * settings) * cred * cred)%type.
Definition vw_of (p : heap * settings) : vw := view (fst p) (snd p).
Definition not_compat (p : PairT) : bool :=
  let '(c, s, cr, ccr) := p in negb (compatible repo_tables SUITES (vw_of c) (vw_of s) cr ccr).
Definition not_compat_any (p : PairT) : bool :=
  let '(c, s, cr, ccr) := p in negb (compatible_any repo_tables SUITES (vw_of c) (vw_of s) cr ccr).
'''


def _sub(rng, xs, keep_one=True):
    ys = [x for x in xs if rng.random() < 0.55]
    if keep_one and not ys and xs:
        ys = [rng.choice(xs)]
    return ys


def restrict(rng, s, role):
    """One restriction / reordering of one dimension of the quantifier; returns a label."""
    import tlslite.handshakesettings as hs
    k = rng.choice(['versions', 'versions', 'minmax', 'minmax', 'ciphers', 'macs', 'kex', 'curves', 'dhgroups',
                    'rsahashes', 'ecdsahashes', 'rsaschemes', 'keysizes', 'flags', 'rsl', 'tickets', 'compression',
                    'reorder', 'shares'])
    if k == 'versions':
        v = _sub(rng, list(s.versions))
        if rng.random() < 0.5:
            rng.shuffle(v)
        s.versions = v
    elif k == 'minmax':
        a, b = sorted(rng.sample(KNOWN[1:] + [(3, 3), (3, 4)], 2))
        if rng.random() < 0.5:
            s.minVersion = a
        if rng.random() < 0.7:
            s.maxVersion = b
        if s.minVersion > s.maxVersion:
            s.minVersion = s.maxVersion
    elif k == 'ciphers':
        s.cipherNames = _sub(rng, list(hs.CIPHER_NAMES))
    elif k == 'macs':
        s.macNames = _sub(rng, list(hs.ALL_MAC_NAMES))
    elif k == 'kex':
        s.keyExchangeNames = _sub(rng, ['rsa', 'dhe_rsa', 'ecdhe_rsa', 'ecdhe_ecdsa'])
    elif k == 'curves':
        s.eccCurves = _sub(rng, list(hs.CURVE_NAMES))
        s.keyShares = [g for g in s.keyShares if g in s.eccCurves or g in s.dhGroups]
    elif k == 'dhgroups':
        s.dhGroups = _sub(rng, list(hs.ALL_DH_GROUP_NAMES), keep_one=False)
        s.keyShares = [g for g in s.keyShares if g in s.eccCurves or g in s.dhGroups]
    elif k == 'shares':
        pool = list(s.eccCurves) + list(s.dhGroups[:1])
        s.keyShares = rng.sample(pool, min(len(pool), rng.randrange(0, 3)))
    elif k == 'rsahashes':
        s.rsaSigHashes = _sub(rng, list(hs.RSA_SIGNATURE_HASHES))
    elif k == 'ecdsahashes':
        s.ecdsaSigHashes = _sub(rng, list(hs.ECDSA_SIGNATURE_HASHES))
    elif k == 'rsaschemes':
        s.rsaSchemes = _sub(rng, list(hs.RSA_SCHEMES))
    elif k == 'keysizes':
        s.minKeySize = rng.choice([512, 1023, 1024, 2048, 2049])
        s.maxKeySize = max(s.minKeySize, rng.choice([1024, 2048, 4096, 8193]))
    elif k == 'flags':
        f = rng.choice(['useEncryptThenMAC', 'useExtendedMasterSecret', 'requireExtendedMasterSecret',
                        'usePaddingExtension', 'use_heartbeat_extension'])
        setattr(s, f, rng.choice([True, False]))
        if s.requireExtendedMasterSecret and not s.useExtendedMasterSecret:
            s.useExtendedMasterSecret = True
        k = 'flags:' + f
    elif k == 'rsl':
        s.record_size_limit = rng.choice([None] + RSL_VALUES)
    elif k == 'tickets':
        if role == 'server':
            s.ticketCipher = rng.choice(['aes256gcm', 'aes128gcm', 'chacha20-poly1305'])
            s.ticketKeys = [bytearray(16 if s.ticketCipher == 'aes128gcm' else 32)]
            s.ticket_count = rng.choice([0, 1, 2])
    elif k == 'compression':
        s.certificate_compression_send = _sub(rng, list(hs.ALL_COMPRESSION_ALGOS_SEND), keep_one=False)
        s.certificate_compression_receive = _sub(rng, list(hs.ALL_COMPRESSION_ALGOS_RECEIVE), keep_one=False)
    elif k == 'reorder':
        f = rng.choice(['cipherNames', 'eccCurves', 'rsaSigHashes', 'macNames', 'versions'])
        v = list(getattr(s, f))
        rng.shuffle(v)
        setattr(s, f, v)
        k = 'reorder:' + f
    return k


def gen_side(rng, role):
    import tlslite.handshakesettings as hs
    for _ in range(50):
        s = hs.HandshakeSettings()
        labels = [restrict(rng, s, role) for _ in range(rng.choice([0, 1, 1, 2, 2, 3]))]
        try:
            s.validate()
            return s, labels
        except ValueError:
            continue
    return hs.HandshakeSettings(), []


def gen_pair(seed):
    rng = random.Random(seed)
    cred = rng.choice(['rsa', 'rsa', 'ecdsa'])
    c, lc = gen_side(rng, 'client')
    s, ls = gen_side(rng, 'server')
    p = {'seed': seed, 'cred': cred, 'client': M.describe(c), 'server': M.describe(s), 'labels': (lc, ls)}
    if rng.random() < 0.5:
        p = overlay(rng, p)
    return p


def directed_pairs():
    """Boundary pairs kept from earlier disagreements (always run first)."""
    import tlslite.handshakesettings as hs

    def mk(**kw):
        s = hs.HandshakeSettings()
        for k, v in kw.items():
            setattr(s, k, v)
        return M.describe(s)
    spec = [
        ('default/default', 'rsa', {}, {}),
        ('default/default', 'ecdsa', {}, {}),
        ('server restricts versions only', 'rsa', {}, {'versions': [(3, 3)]}),
        ('client restricts versions only', 'rsa', {'versions': [(3, 3), (3, 2)]}, {}),
        ('client minVersion above entries of its versions; server prefers old', 'rsa',
         {'minVersion': (3, 3)}, {'versions': [(3, 2), (3, 3)]}),
        ('client TLS 1.3 only (minVersion=(3,4)), everything else default', 'rsa', {'minVersion': (3, 4)}, {}),
        ('server TLS 1.3 only (minVersion=(3,4)), everything else default', 'rsa', {}, {'minVersion': (3, 4)}),
        ('client requires EMS, TLS 1.3', 'rsa', {'requireExtendedMasterSecret': True}, {}),
        ('client requires EMS, TLS 1.2', 'rsa', {'requireExtendedMasterSecret': True, 'maxVersion': (3, 3)}, {}),
        ('small record_size_limit + HelloRetryRequest', 'rsa', {'keyShares': []}, {'record_size_limit': 64}),
        ('small record_size_limit', 'rsa', {}, {'record_size_limit': 64}),
        ('chacha20-poly1305 tickets with a fitting key, TLS 1.3', 'rsa', {},
         {'ticketCipher': 'chacha20-poly1305', 'ticketKeys': [bytearray(32)]}),
        ('aes128gcm tickets with a fitting key, TLS 1.2', 'rsa', {'maxVersion': (3, 3)},
         {'ticketCipher': 'aes128gcm', 'ticketKeys': [bytearray(16)]}),
        ('client without (EC)DHE key exchanges still offers TLS 1.3', 'rsa', {'keyExchangeNames': ['rsa']}, {}),
        ('TLS 1.2 only, CBC only', 'rsa', {'maxVersion': (3, 3), 'cipherNames': ['aes128'], 'macNames': ['sha']}, {}),
        ('TLS 1.0 only', 'ecdsa', {'maxVersion': (3, 1)}, {}),
    ]
    out = [{'seed': 1000 + i, 'cred': cred, 'client': mk(**c), 'server': mk(**sv), 'labels': (['directed:' + name], [])}
           for i, (name, cred, c, sv) in enumerate(spec)]
    # record_size_limit sweep: every boundary value on either side x every protocol version, followed by a
    # transfer larger than the limit in both directions
    n = 2000
    for ver in [(3, 1), (3, 2), (3, 3), (3, 4)]:
        for lim in RSL_VALUES:
            for side in ('client', 'server'):
                ckw = {'maxVersion': ver}
                skw = {}
                (ckw if side == 'client' else skw)['record_size_limit'] = lim
                n += 1
                out.append({'seed': n, 'cred': 'rsa', 'client': mk(**ckw), 'server': mk(**skw), 'xfer': 2 * lim + 123,
                            'labels': (['directed:record_size_limit=%d on the %s, TLS %d.%d' % (lim, side, ver[0], ver[1])], [])})
                # the same with session tickets switched on at the server (the TLS <= 1.2 NewSessionTicket travels
                # unprotected, before the server's ChangeCipherSpec), and resuming with that ticket
                skw2 = dict(skw, ticketKeys=[bytearray(range(32))])
                n += 1
                out.append({'seed': n, 'cred': 'rsa', 'client': mk(**ckw), 'server': mk(**skw2), 'xfer': 2 * lim + 123,
                            'labels': (['directed:record_size_limit=%d on the %s, server tickets on, TLS %d.%d'
                                        % (lim, side, ver[0], ver[1])], [])})
                if lim in (64, 100, 1024, 2 ** 14):
                    n += 1
                    out.append({'seed': n, 'cred': 'rsa', 'client': mk(**ckw), 'server': mk(**skw2), 'xfer': 2 * lim + 123,
                                'resume': True,
                                'labels': (['directed:record_size_limit=%d on the %s, resumption with a ticket, TLS %d.%d'
                                            % (lim, side, ver[0], ver[1])], [])})
    # settings that validate() must refuse: if they are accepted the pair is run (and judged) like any other
    invalid = [
        ('server whose certificate_compression_send names an algorithm it cannot encode', 'rsa', {}, {'certificate_compression_send': [a]})
        for a in ('brotli', 'zstd') if a not in hs.ALL_COMPRESSION_ALGOS_SEND
    ] + [
        ('client whose certificate_compression_receive names an algorithm it cannot decode', 'rsa',
         {'certificate_compression_receive': [a]}, {})
        for a in ('brotli', 'zstd') if a not in hs.ALL_COMPRESSION_ALGOS_RECEIVE
    ]
    for name, cred, c, sv in invalid:
        n += 1
        out.append({'seed': n, 'cred': cred, 'client': mk(**c), 'server': mk(**sv), 'expect_invalid': True,
                    'labels': (['directed:' + name], [])})
    return out


RSL_VALUES = [64, 65, 100, 200, 511, 512, 1024, 2 ** 14, 2 ** 14 + 1]


def cred_lit(name, psk=None):
    if name is None:
        return '{| cr_kind := ""%string; cr_bits := 0; cr_curve := ""%string; cr_psk := ""%string |}'
    kind, curve, files = CREDS[name]
    bits = 0
    if files:
        chain, key = load_cred(name)
        bits = len(key) if kind in ('rsa', 'rsapss', 'dsa') else 0
    return '{| cr_kind := %s; cr_bits := %d; cr_curve := %s; cr_psk := %s |}' % (
        vlib.strlit(kind), bits, vlib.strlit(curve or ''), vlib.strlit(psk or ''))


# ---- dimensions that interact ACROSS handshake messages ------------------------------------------------
GROUP_CFGS = [       # (label, client kw, server kw): the last four force a HelloRetryRequest in TLS 1.3
    ('groups-default', {}, {}),
    ('hrr:x25519->secp256r1', {'keyShares': ['x25519']}, {'eccCurves': ['secp256r1'], 'keyShares': ['secp256r1']}),
    ('hrr:no-share', {'keyShares': []}, {}),
    ('hrr:x25519->secp384r1', {'keyShares': ['x25519']}, {'eccCurves': ['secp384r1', 'secp521r1'], 'keyShares': ['secp384r1']}),
    ('hrr:x25519->ffdhe2048', {'keyShares': ['x25519']}, {'eccCurves': [], 'dhGroups': ['ffdhe2048'], 'keyShares': ['ffdhe2048']}),
]
PSK_CFGS = [         # (label, client kw, server kw, hash of the shared PSK or None, resume through a prior connection)
    ('psk-none', {}, {}, None, False),
    ('psk-sha256', {'pskConfigs': PSK256}, {'pskConfigs': PSK256}, 'sha256', False),
    ('psk-sha384', {'pskConfigs': PSK384}, {'pskConfigs': PSK384}, 'sha384', False),
    ('psk-sha256-ke-only', {'pskConfigs': PSK256, 'psk_modes': ['psk_ke']}, {'pskConfigs': PSK256, 'psk_modes': ['psk_ke']},
     'sha256', False),
    ('psk-sha384-client-ke-only', {'pskConfigs': PSK384, 'psk_modes': ['psk_ke']}, {'pskConfigs': PSK384}, 'sha384', False),
    ('psk-both-hashes', {'pskConfigs': PSK384 + PSK256}, {'pskConfigs': PSK256 + PSK384}, 'sha256', False),
    ('ticket-from-prior-connection', {}, {'ticketKeys': [bytearray(b'\x11' * 32)]}, None, True),
]


def _mkdesc(**kw):
    import tlslite.handshakesettings as hs
    s = hs.HandshakeSettings()
    for k, v in kw.items():
        setattr(s, k, v)
    return M.describe(s)


def cross_pairs():
    """{group settings forcing HelloRetryRequest} x {external PSK sha256/sha384, psk_modes, ticket from a prior
    connection} x {certificate, PSK-only server} (+ record_size_limit and protocol-version variants)."""
    out = []
    n = 4000

    def add(label, cred, ckw, skw, psk, resume):
        nonlocal n
        n += 1
        out.append({'seed': n, 'cred': cred, 'client': _mkdesc(**ckw), 'server': _mkdesc(**skw), 'psk': psk,
                    'resume': resume, 'labels': (['cross:' + label], [])})
    for gl, gc, gs in GROUP_CFGS:
        for pl, pc, ps, h, resume in PSK_CFGS:
            ckw, skw = dict(gc, **pc), dict(gs, **ps)
            add('%s+%s+rsa' % (gl, pl), 'rsa', ckw, skw, h, resume)
            if h:
                add('%s+%s+no-certificate' % (gl, pl), 'psk', ckw, skw, h, False)
            if pl in ('psk-sha256', 'ticket-from-prior-connection') and gl in ('groups-default', 'hrr:x25519->secp256r1', 'hrr:no-share'):
                add('%s+%s+ecdsa' % (gl, pl), 'ecdsa', ckw, skw, h, resume)
                for side in ('client', 'server'):
                    for lim in (64, 511):
                        c2, s2 = dict(ckw), dict(skw)
                        (c2 if side == 'client' else s2)['record_size_limit'] = lim
                        add('%s+%s+rsa+record_size_limit=%d on the %s' % (gl, pl, lim, side), 'rsa', c2, s2, h, resume)
    # a matching PSK whose hash has no cipher suite on offer: the certificate handshake must still work
    add('psk-sha384 offered, client without a SHA-384 suite+rsa', 'rsa', {'pskConfigs': PSK384, 'cipherNames': ['aes128gcm', '3des']},
        {'pskConfigs': PSK384}, 'sha384', False)
    add('psk-sha256 offered, client without a SHA-256 suite+rsa', 'rsa', {'pskConfigs': PSK256, 'cipherNames': ['aes256gcm']},
        {'pskConfigs': PSK256}, 'sha256', False)
    # older protocol versions: resumption through the session cache / tickets, PSK settings present but unused
    for ver in [(3, 1), (3, 2), (3, 3)]:
        add('TLS %d.%d+ticket-from-prior-connection+rsa' % ver, 'rsa', {'maxVersion': ver},
            {'ticketKeys': [bytearray(b'\x11' * 32)]}, None, True)
        add('TLS %d.%d+session-cache-resumption+rsa' % ver, 'rsa', {'maxVersion': ver}, {}, None, True)
        add('TLS %d.%d+psk-sha256 configured+rsa' % ver, 'rsa', {'maxVersion': ver, 'pskConfigs': PSK256},
            {'pskConfigs': PSK256}, 'sha256', False)
        # the client offers TLS 1.3 with the PSK, the SERVER stops at an older version (the PSK must then be ignored)
        for cred in ('rsa', 'ecdsa'):
            add('server maxVersion %d.%d+psk-sha256 offered+%s' % (ver + (cred,)), cred, {'pskConfigs': PSK256},
                {'maxVersion': ver, 'pskConfigs': PSK256}, 'sha256', False)
        add('server maxVersion %d.%d+psk-sha384 offered, client without aes256gcm+rsa' % ver, 'rsa',
            {'pskConfigs': PSK384, 'cipherNames': ['aes128gcm', 'aes128']}, {'maxVersion': ver, 'pskConfigs': PSK384}, 'sha384', False)
    return out


# ---- every list-valued setting restricted to each single admissible value on one side --------------------------
SIG_SETTINGS = {     # setting -> server credentials whose signatures it governs, client credential it governs
    'ecdsaSigHashes': (['ecdsa', 'ecdsa384', 'ecdsa521', 'bp256', 'bp384', 'bp512'], 'client-ecdsa'),
    'rsaSigHashes': (['rsa', 'rsapss'], 'client-rsa'),
    'rsaSchemes': (['rsa', 'rsapss'], 'client-rsa'),
    'dsaSigHashes': (['dsa'], 'client-dsa'),
    'more_sig_schemes': (['ed25519', 'ed448', 'bp256', 'bp384', 'bp512'], 'client-ed25519'),
}
GENERAL_SETTINGS = {  # setting -> server credentials to combine it with
    'eccCurves': ['rsa', 'ecdsa'], 'dhGroups': ['rsa', 'dsa'],
    'cipherNames': ['rsa', 'ecdsa', 'dsa', 'ed25519'], 'macNames': ['rsa', 'ecdsa', 'dsa', 'ed25519'],
    'keyExchangeNames': ['rsa', 'rsapss', 'ecdsa', 'dsa', 'ed25519'], 'certificateTypes': ['rsa', 'ecdsa'],
}
SETTING_TABLE = {'ecdsaSigHashes': 'ECDSA_SIGNATURE_HASHES', 'rsaSigHashes': 'ALL_RSA_SIGNATURE_HASHES', 'rsaSchemes': 'RSA_SCHEMES',
                 'dsaSigHashes': 'DSA_SIGNATURE_HASHES', 'more_sig_schemes': 'SIGNATURE_SCHEMES', 'eccCurves': 'ALL_CURVE_NAMES',
                 'dhGroups': 'ALL_DH_GROUP_NAMES', 'cipherNames': 'ALL_CIPHER_NAMES', 'macNames': 'ALL_MAC_NAMES',
                 'keyExchangeNames': 'KEY_EXCHANGE_NAMES', 'certificateTypes': 'CERTIFICATE_TYPES'}


def single_value_pairs(versions, full=True):
    """One side keeps exactly ONE admissible value of one list-valued setting (the other side and everything else stay
    default), per credential type whose handshake the setting takes part in, per protocol version, with the
    restriction on the client or on the server; for the signature settings also with client authentication."""
    import tlslite.handshakesettings as hs
    out = []
    n = 10000

    def add(label, cred, ccred, side, setting, value, ver):
        nonlocal n
        n += 1
        kw = {setting: [value]}
        if setting in ('eccCurves', 'dhGroups'):
            d = hs.HandshakeSettings()
            other = d.dhGroups if setting == 'eccCurves' else d.eccCurves
            kw['keyShares'] = [k for k in d.keyShares if k == value or k in other]
        ckw, skw = {'maxVersion': ver}, {}
        (ckw if side == 'client' else skw).update(kw)
        dflt = getattr(hs.HandshakeSettings(), setting)
        if value not in dflt:
            # a value the defaults do not enable (rc4, null, md5, secp256k1 ...) can only be negotiated when the
            # other side enables it too: defaults + that value there
            (skw if side == 'client' else ckw)[setting] = list(dflt) + [value]
        try:
            c, s = _mkdesc(**ckw), _mkdesc(**skw)
            M.rebuild(c).validate()
            M.rebuild(s).validate()
        except ValueError:
            return          # not a validated configuration (e.g. a TLS 1.3-only group rule): outside the property
        out.append({'seed': n, 'cred': cred, 'ccred': ccred, 'client': c, 'server': s,
                    'labels': (['single:%s=[%s] on the %s, %s%s, TLS %d.%d'
                                % (setting, value, side, cred, '+' + ccred if ccred else '', ver[0], ver[1])], [])})
    for ver in versions:
        for side in ('client', 'server'):
            for setting, (screds, ccred) in SIG_SETTINGS.items():
                for value in getattr(hs, SETTING_TABLE[setting]):
                    for cred in screds:
                        add('sig', cred, None, side, setting, value, ver)
                    add('sig-clientauth', 'rsa', ccred, side, setting, value, ver)
                    if side == 'server':     # certificate requested, the client has none
                        add('sig-reqcert-nocert', 'rsa', None, side, setting, value, ver)
                        out[-1]['reqcert'] = True
                        out[-1]['labels'] = ([out[-1]['labels'][0][0] + ' (reqCert, client without certificate)'], [])
            for setting, screds in GENERAL_SETTINGS.items():
                values = [v for v in getattr(hs, SETTING_TABLE[setting])
                          if not (setting == 'keyExchangeNames' and v in ('srp_sha', 'srp_sha_rsa', 'ecdh_anon', 'dh_anon'))]
                for ci, cred in enumerate(screds):
                    if full:
                        chosen = values
                    else:
                        # quick tier: per setting x credential x version the first, the last and one rotating value,
                        # the restricted side alternating; the thorough tier runs every value on either side
                        vi = versions.index(ver)
                        chosen = []
                        for k, v in enumerate([values[0], values[-1], values[(ci + 2 * vi + 1) % len(values)]]):
                            if v not in chosen and ((k + ci + vi) % 2 == 0) == (side == 'client'):
                                chosen.append(v)
                    for value in chosen:
                        add('general', cred, None, side, setting, value, ver)
    return out


CIPHER_CLASSES = [('stream', 'rc4'), ('cbc', 'aes128'), ('cbc-3des', '3des'), ('aead', 'aes128gcm'), ('null', 'null')]
FLAG_VARIANTS = (
    [('useEncryptThenMAC client=%s server=%s' % (a, b), {'useEncryptThenMAC': a}, {'useEncryptThenMAC': b})
     for a in (True, False) for b in (True, False)] +
    [('useExtendedMasterSecret off on the %s' % w, {'useExtendedMasterSecret': False} if 'c' in k else {},
      {'useExtendedMasterSecret': False} if 's' in k else {}) for w, k in (('client', 'c'), ('server', 's'), ('both', 'cs'))] +
    [('usePaddingExtension off on the %s' % w, {'usePaddingExtension': False} if k == 'c' else {},
      {'usePaddingExtension': False} if k == 's' else {}) for w, k in (('client', 'c'), ('server', 's'))] +
    [('use_heartbeat_extension off on the %s' % w, {'use_heartbeat_extension': False} if 'c' in k else {},
      {'use_heartbeat_extension': False} if 's' in k else {}) for w, k in (('client', 'c'), ('server', 's'), ('both', 'cs'))] +
    [('record_size_limit=512 on the %s' % w, {'record_size_limit': 512} if k == 'c' else {},
      {'record_size_limit': 512} if k == 's' else {}) for w, k in (('client', 'c'), ('server', 's'))] +
    [('record_size_limit absent on the %s' % w, {'record_size_limit': None} if k == 'c' else {},
      {'record_size_limit': None} if k == 's' else {}) for w, k in (('client', 'c'), ('server', 's'))]
)


def cipher_pairs():
    """(a) every cipher name of the installation's domain negotiated ALONE (both sides enable it, the client only it)
    once per version family with default booleans; (b) every boolean / optional-extension setting crossed with one
    cipher of each class (stream, CBC, 3DES, AEAD, NULL) per version family."""
    import tlslite.handshakesettings as hs
    out = []
    n = 30000
    dflt = list(hs.HandshakeSettings().cipherNames)

    def add(label, cipher, ver, ckw, skw, cred='rsa'):
        nonlocal n
        n += 1
        c = dict(ckw, maxVersion=ver, cipherNames=[cipher])
        s = dict(skw, cipherNames=dflt + ([cipher] if cipher not in dflt else []))
        if cipher == 'rc4' or cipher == 'null':
            c['macNames'] = list(hs.ALL_MAC_NAMES)
            s['macNames'] = list(hs.ALL_MAC_NAMES)
        try:
            cd, sd = _mkdesc(**c), _mkdesc(**s)
            M.rebuild(cd).validate()
            M.rebuild(sd).validate()
        except ValueError:
            return
        out.append({'seed': n, 'cred': cred, 'client': cd, 'server': sd, 'xfer': 3000,
                    'labels': (['cipher:%s alone, TLS %d.%d, %s%s' % (cipher, ver[0], ver[1], cred, ', ' + label if label else '')], [])})
    for ver in [(3, 1), (3, 2), (3, 3), (3, 4)]:
        for cipher in hs.ALL_CIPHER_NAMES:
            add('', cipher, ver, {}, {})
            if ver in ((3, 1), (3, 3)):
                add('', cipher, ver, {}, {}, cred='ecdsa')
    for ver in [(3, 1), (3, 3), (3, 4)]:
        for cls_, cipher in CIPHER_CLASSES:
            if ver == (3, 4) and cls_ != 'aead':
                continue
            for label, ckw, skw in FLAG_VARIANTS:
                add('%s cipher, %s' % (cls_, label), cipher, ver, ckw, skw)
    return out


def overlay(rng, p):
    """Put a random (group, PSK/ticket, record_size_limit) combination on top of a generated pair (kept only
    when both sides still validate)."""
    gl, gc, gs = rng.choice(GROUP_CFGS)
    pl, pc, ps, h, resume = rng.choice(PSK_CFGS)
    c, s = M.rebuild(p['client']), M.rebuild(p['server'])
    for k, v in dict(gc, **pc).items():
        setattr(c, k, copy.deepcopy(v))
    for k, v in dict(gs, **ps).items():
        setattr(s, k, copy.deepcopy(v))
    if rng.random() < 0.4:
        setattr(rng.choice([c, s]), 'record_size_limit', rng.choice(RSL_VALUES))
    try:
        c.validate()
        s.validate()
    except ValueError:
        return p
    q = dict(p, client=M.describe(c), server=M.describe(s), psk=h, resume=resume)
    q['labels'] = (p['labels'][0] + ['overlay:%s+%s' % (gl, pl)], p['labels'][1])
    if h and rng.random() < 0.3:
        q['cred'] = 'psk'
    return q


def diagnose_settings(p):
    """A ValueError while preparing/running a pair: is it validate() misbehaving on one of the two objects?
    Returns (key, what, side) for the first-sentence clause that fails, or None (then it is a harness error)."""
    import traceback
    import c19_gen as G

    def site(exc):
        for fr in reversed(traceback.extract_tb(exc.__traceback__)):
            if fr.filename.endswith('handshakesettings.py'):
                return fr.name
        return '?'
    for side in ('client', 'server'):
        s = M.rebuild(p[side])
        te, dv = G.domain_violations(s)
        if te or dv:
            continue
        try:
            v = s.validate()
        except Exception as e:  # noqa
            return ('inside-domain-rejected:%s@%s' % (type(e).__name__, site(e)),
                    'validate() raises %s (%s) for %s settings inside the documented domains' % (type(e).__name__, e, side), side)
        try:
            v2 = v.validate()
        except Exception as e:  # noqa
            return ('not-idempotent:raises:%s@%s' % (type(e).__name__, site(e)),
                    'validate() of validated %s settings raises %s (the handshake validates them again)' % (side, e), side)
        c1, c2 = M.snapshot(v)['content'], M.snapshot(v2)['content']
        dd = sorted(k for k in set(c1) | set(c2) if c1.get(k) != c2.get(k))
        if dd:
            try:
                v2.validate()
                v2.validate().validate()
            except Exception as e:  # noqa
                return ('not-idempotent:' + ','.join(dd),
                        'validate(validate(s)) differs from validate(s) in %s for the %s settings; repeated validation '
                        '(as done by the handshake) ends in %s: %s' % (dd, side, type(e).__name__, e), side)
            return ('not-idempotent:' + ','.join(dd), 'validate(validate(s)) differs from validate(s) in %s (%s settings)'
                    % (dd, side), side)
    return None


def run_pair(p):
    """Worker: live handshake; returns outcome classes and the literals of the two validated objects."""
    import loop
    rnd = loop.DetRandom(p['seed']).install()
    try:
        c = M.rebuild(p['client'])
        s = M.rebuild(p['server'])
        try:
            vc, vs = c.validate(), s.validate()
        except ValueError as e:
            if p.get('expect_invalid'):
                return {'lit': None, 'rejected': True, 'client': ('rejected',), 'server': ('rejected',), 'version': None,
                        'detail': (str(e)[:200], '')}
            raise
        parts = (M.settings_lit(vc), M.settings_lit(vs), cred_lit(p['cred'], p.get('psk')), cred_lit(p.get('ccred')))
        shared = [v for v in KNOWN if all(x.minVersion <= v <= x.maxVersion and v in x.versions for x in (vc, vs))]
        hsv = max(shared) if shared else None
        # `versions` not reconciled with maxVersion / not ordered highest first on a side (known finding: such an
        # endpoint prefers or announces a version other than the highest it enables)
        unrec = [n for n, x in (('client', vc), ('server', vs))
                 if x.versions and (list(x.versions) != sorted(x.versions, reverse=True) or x.versions[0] != x.maxVersion)]
        lit = True
        skw = {'settings': s}
        if p['cred'] != 'psk':
            chain, key = load_cred(p['cred'])
            skw.update(certChain=chain, privateKey=key)
        ckw = {'settings': c}
        if p.get('ccred'):
            cchain, ckey = load_cred(p['ccred'])
            ckw.update(certChain=cchain, privateKey=ckey)
            skw['reqCert'] = True
        if p.get('reqcert'):
            skw['reqCert'] = True
        phase = 'handshake'
        if p.get('resume'):
            # a prior connection supplies the session / ticket the second one offers
            from tlslite.api import SessionCache
            skw['sessionCache'] = SessionCache()
            first = loop.Pair()
            co, so = first.handshake(client_kw=dict(ckw), server_kw=dict(skw))
            if co[0] == 'ok' and so[0] == 'ok':
                first.transfer(first.client, first.server, b'a' * 300)
                first.transfer(first.server, first.client, b'b' * 300)      # the client reads: NewSessionTicket arrives
                ckw['session'] = first.client.session
                phase = 'resumed-handshake'
            else:
                phase = 'prior-handshake'
        if phase != 'prior-handshake':
            pair = loop.Pair()
            co, so = pair.handshake(client_kw=ckw, server_kw=skw)
        cc, sc = loop.classify(co), loop.classify(so)
        ver = None
        detail = (repr(co[1])[:300] if co[0] == 'exc' else '', repr(so[1])[:300] if so[0] == 'exc' else '')
        if cc == ('ok',) and sc == ('ok',):
            ver = tuple(pair.client.version)
            # data both ways, more than the smallest record_size_limit in force
            lims = [x for x in (vc.record_size_limit, vs.record_size_limit) if x]
            n = p.get('xfer') or min(2 * min(lims + [2 ** 14]) + 123, 5000)
            for src, dst, tag in ((pair.client, pair.server, b'c'), (pair.server, pair.client, b's')):
                data = tag * n
                w, r, got = pair.transfer(src, dst, data)
                if w[0] == 'exc' or r[0] == 'exc' or got != data:
                    phase = 'transfer' if phase == 'handshake' else phase + '+transfer'
                    wc = loop.classify(w) if w[0] == 'exc' else ('ok',)
                    rc = loop.classify(r) if r[0] == 'exc' else ('ok',)
                    if got != data and wc == ('ok',) and rc == ('ok',):
                        rc = ('Other', 'data-mismatch')
                    # attribute writer/reader outcomes to client/server
                    cc, sc = (wc, rc) if src is pair.client else (rc, wc)
                    detail = (repr(w[1])[:200] if w[0] == 'exc' else '', repr(r[1])[:200] if r[0] == 'exc' else '')
                    break
        return {'lit': lit, 'parts': parts, 'hsv': hsv, 'unrec': unrec, 'client': cc, 'server': sc, 'version': ver,
                'detail': detail, 'phase': phase,
                'resumed': bool(getattr(pair.client, 'resumed', False)) if ver else None}
    except Exception as e:  # noqa
        import traceback
        diag = diagnose_settings(p) if isinstance(e, ValueError) else None
        return {'lit': None, 'client': ('Harness', type(e).__name__), 'server': ('Harness', str(e)[:200]), 'version': None,
                'detail': (traceback.format_exc()[-600:], ''), 'diag': diag}
    finally:
        rnd.uninstall()


def cls(c):
    return '/'.join(str(x) for x in c[:2])


def reason(o):
    """Stable slug of the local alert's message (digits and punctuation dropped)."""
    import re
    for d in o['detail']:
        m = re.search(r"TLSLocalAlert\(Alert\([^)]*\), (?:'([^']*)|\"([^\"]*)|None)", d or '')
        if m:
            msg = m.group(1) or m.group(2)
            if not msg:
                from tlslite.constants import AlertDescription
                n = re.search(r'description=(\d+)', d)
                msg = 'no message ' + (AlertDescription.toRepr(int(n.group(1))) if n else '')
            return re.sub(r'[^A-Za-z]+', '-', msg).strip('-')[:48]
    return 'no-local-alert'


def eval_compat(parts, shard):
    """Evaluate `compatible` / `compatible_any` by vm_compute.  parts[i] = (client literal, server literal, cred, ccred).
    Identical settings literals (the default side of most pairs) are defined once per file: parsing the string
    literals dominates the cost.  Returns ((indices with compatible, indices with compatible_any), errors)."""
    import re
    ns = max(1, (len(parts) + shard - 1) // shard)
    files = []
    for k in range(ns):
        mine = parts[k::ns]
        names, defs, rows = {}, [], []
        for c, s, cr, ccr in mine:
            for lit in (c, s):
                if lit not in names:
                    names[lit] = 'st%d' % len(names)
                    defs.append('Definition %s : heap * settings := %s.' % (names[lit], lit))
            rows.append('(%s, %s, %s, %s)' % (names[c], names[s], cr, ccr))
        text = ('From Coq Require Import ZArith List Bool String.\nFrom TV Require Import Base.Prelude %s.\n'
                'Import ListNotations.\nOpen Scope Z_scope.\n%s\n%s\nDefinition cases : list PairT := [\n%s\n].\n'
                'Eval vm_compute in (bad_idx not_compat cases).\nEval vm_compute in (bad_idx not_compat_any cases).\n'
                % (' '.join(IMPORTS), PREAMBLE, '\n'.join(defs), ';\n'.join(rows)))
        files.append(('C19p%s_%04d' % (RUN, k), text))
    res = vlib.coq_run_files(files, timeout=3000)
    # a coqc killed from outside (rc -9 / 137) is retried once, alone
    for k, (rc, out) in enumerate(res):
        if rc in (-9, 137, 124):
            res[k] = vlib.coq_run_files([files[k]], timeout=3000)[0]
    bads, errs = [[], []], []
    for k, (rc, out) in enumerate(res):
        if rc != 0:
            errs.append('%s: rc=%s %s' % (files[k][0], rc, out[-1500:]))
            continue
        ms = re.findall(r'=\s*\[(.*?)\]\s*:\s*list nat', out, flags=re.S)
        if len(ms) != 2:
            errs.append('%s: unparsable output %s' % (files[k][0], out[-500:]))
            continue
        for fi, m in enumerate(ms):
            for n in re.findall(r'\d+', m):
                bads[fi].append(int(n) * ns + k)
    return (bads[0], bads[1]), errs


def run_pairs(ctx, found, model_ok):
    from props.C19 import V
    quick = ctx.tier == 'quick'
    n = 48 if quick else 1000
    seeds = [ctx.rng.randrange(2 ** 31) for _ in range(n)]
    sweep_versions = [(3, 1), (3, 3), (3, 4)] if quick else [(3, 1), (3, 2), (3, 3), (3, 4)]
    pairs = directed_pairs() + cross_pairs() + cipher_pairs() + single_value_pairs(sweep_versions, full=not quick) + [gen_pair(sd) for sd in seeds]
    with multiprocessing.Pool(min(16, vlib.NPROC)) as pool:
        outs = pool.map(run_pair, pairs, chunksize=4)
    ctx.log('pairs: %d live pairs run' % len(pairs))
    if not model_ok:
        ctx.notes.append('handshake half: model not available, pairs run but not judged')
        return
    idx = [i for i, o in enumerate(outs) if o['lit']]
    rejected = sum(1 for o in outs if o.get('rejected'))
    for i, o in enumerate(outs):
        if not o['lit'] and not o.get('rejected'):
            if o.get('diag'):
                key, what, side = o['diag']
                V(ctx, found, key, what, {'settings': pairs[i][side], 'pair': pairs[i], 'clause': 'first sentence, met while running a pair',
                                          'how': './check C19 --replay <this file>'})
            else:
                V(ctx, found, 'pair-harness-error:%s' % cls(o['client']), 'pair could not be run: %s' % (o['server'],),
                  {'pair': pairs[i], 'detail': o['detail']}, found_input=False)
    (nc, nca), errs = eval_compat([outs[i]['parts'] for i in idx], max(8, (len(idx) + 15) // 16) if quick else 80)
    for e in errs:
        V(ctx, found, 'tie-broken:pairs', 'evaluation of `compatible` failed: ' + e[:300], {'detail': e[:2000]}, found_input=False)
        return
    compat, compat_any = set(nc), set(nca)
    stats = {'compatible+connect': 0, 'compatible+fail': 0, 'incompatible+connect': 0, 'incompatible+fail': 0,
             'any-only+fail': 0, 'any-only+connect': 0}
    for j, i in enumerate(idx):
        o, p = outs[i], pairs[i]
        connected = o['client'] == ('ok',) and o['server'] == ('ok',)
        c = j in compat
        ca = j in compat_any
        key = (p['cred'], o['version'], o.get('resumed'), cls(o['client']), cls(o['server']), c, tuple(sorted(set(p['labels'][0]))), tuple(sorted(set(p['labels'][1]))))
        ctx.count('pairs(compatible vs live handshake)', 1, [key],
                  sample={'cred': p['cred'], 'labels': p['labels'], 'compatible': c, 'client': o['client'], 'server': o['server'],
                          'version': o['version']} if j % 17 == 0 else None)
        if c:
            stats['compatible+connect' if connected else 'compatible+fail'] += 1
        elif ca:
            stats['any-only+connect' if connected else 'any-only+fail'] += 1
        else:
            stats['incompatible+connect' if connected else 'incompatible+fail'] += 1
        if c and not connected:
            key = 'compatible-pair-fails:%s%s:%s:%s' % ('' if o.get('phase', 'handshake') in ('handshake', 'prior-handshake') else o['phase'] + ':',
                                                          cls(o['client']), cls(o['server']), reason(o))
            if 'downgrade-prote' in key:
                pass                                    # the known versions/maxVersion finding in its usual form
            elif o.get('unrec'):
                # another manifestation of the known versions/maxVersion reconciliation finding
                key = 'compatible-pair-fails:versions-order-or-maxVersion-not-reconciled'
            elif p.get('psk') and o.get('hsv'):
                key += ':psk@%d.%d' % o['hsv']          # a PSK is configured on both sides: the class depends on the version
            V(ctx, found, key,
              'settings pair is compatible (shares a version and for it a suite, group and signature scheme usable with the %s '
              'credentials) but the %s fails: client %s, server %s; changed dimensions client=%s server=%s'
              % (p['cred'], o.get('phase', 'handshake'), o['client'], o['server'], p['labels'][0], p['labels'][1]),
              {'pair': p, 'client_outcome': o['client'], 'server_outcome': o['server'], 'detail': o['detail'],
               'how': './check C19 --replay <this file> (rebuilds both objects, runs loop.Pair().handshake)'})
    stats['invalid-settings-rejected-as-expected'] = rejected
    ctx.cov['pair_stats'] = stats
    ctx.log('pairs: %s' % stats)


def replay_pair(r):
    p = r['pair']
    o = run_pair(p)
    print('client:', o['client'], 'server:', o['server'], 'version:', o['version'])
    print(o['detail'])
    return 0 if (o['client'] == ('ok',) and o['server'] == ('ok',)) else 1
