"""C13 systematic histories: one resumption attempt per scenario, every acceptance condition and
every event kind exercised once per version class and mechanism; plus the single-bit-flip sweep."""


def base_cfg(maxv, mech, auth=0):
    """mech: 'sid' (cache only), 'ticket' (tickets only), 'both' (cache + tickets)"""
    return {'maxv': maxv, 'keys': [1] if mech in ('ticket', 'both') else [], 'life': 100, 'count': 1,
            'usecache': mech in ('sid', 'both'), 'maxage': 50, 'cap': 10000,
            'ems': True, 'etm': True, 'reqcert': True, 'menu': 0, 'auth': auth}


def conn(maxv, offer=None, srv=0, menu=0, ems=True, etm=True, sni=1, ccert=1, kind=0, srp=1, half=0):
    return {'half': half, 'e': 'conn', 'srv': srv, 'maxv': maxv, 'menu': menu, 'ems': ems, 'etm': etm, 'sni': sni,
            'ccert': ccert if kind == 0 else 0, 'offer': offer, 'kind': kind, 'srp': srp if kind == 1 else 0}


def close(c, kind=0):
    return {'e': 'close', 'conn': c, 'kind': kind}


def tick(dt):
    return {'e': 'tick', 'dt': dt}


def cfg(c, srv=0, **kw):
    n = dict(c)
    n.update(kw)
    return {'e': 'cfg', 'srv': srv, 'cfg': n}


def middles(c, v, mech):
    """(name, events between the first connection (closed clean unless stated) and the attempt, attempt overrides)"""
    which = 1 if v == 4 else 0
    life_q, age_q = c['life'] * 4, c['maxage'] * 4
    m = [
        ('plain', [close(0)], {}),
        ('still-open', [], {}),
        ('tick-small', [close(0), tick(7)], {}),
        ('ticket-expiry-1', [close(0), tick(life_q - 1)], {}),
        ('ticket-expiry', [close(0), tick(life_q)], {}),
        ('ticket-expiry+1', [close(0), tick(life_q + 1)], {}),
        ('ticket-expiry+4', [close(0), tick(life_q + 4)], {}),
        ('frac-issue-expiry', None, {}),      # built specially below
        ('cache-age', [close(0), tick(age_q)], {}),
        ('cache-age+1', [close(0), tick(age_q + 1)], {}),
        ('long', [close(0), tick(4 * 86400 * 8)], {}),
        ('keep-expired', [close(0), tick(life_q + 40), {'e': 'keep', 'ci': 0}], {}),
        ('keep-8days', [close(0), tick(4 * 86400 * 8), {'e': 'keep', 'ci': 0}], {}),
        ('rotate-keep-old', [close(0), cfg(c, keys=[7] + c['keys'])], {}),
        ('rotate-drop-old', [close(0), cfg(c, keys=[7])], {}),
        ('tickets-off-nokeys', [close(0), cfg(c, keys=[])], {}),
        ('tickets-off-count0', [close(0), cfg(c, count=0)], {}),
        ('lifetime-shortened', [close(0), tick(40), cfg(c, life=8)], {}),
        ('lifetime-raised-keep', [close(0), cfg(c, life=3600), tick(life_q + 40), {'e': 'keep', 'ci': 0}], {}),
        ('cache-off', [close(0), cfg(c, usecache=False)], {}),
        ('cache-on', [close(0), cfg(c, usecache=True)], {}),
        ('fatal', [close(0, 1)], {}),
        ('fatal-revive', [close(0, 1), {'e': 'revive', 'ci': 0}], {}),
        ('abrupt-server', [close(0, 2)], {}),
        ('abrupt-client', [close(0, 3)], {}),
        ('abrupt-client-revive', [close(0, 3), {'e': 'revive', 'ci': 0}], {}),
        ('tamper-first-bit', [close(0), {'e': 'tamper', 'ci': 0, 'which': which, 'bit': 0}], {}),
        ('tamper-nonce', [close(0), {'e': 'tamper', 'ci': 0, 'which': which, 'bit': 100}], {}),
        ('tamper-body', [close(0), {'e': 'tamper', 'ci': 0, 'which': which, 'bit': 300}], {}),
        ('tamper-last-bit', [close(0), {'e': 'tamper', 'ci': 0, 'which': which, 'bit': -1}], {}),
        ('forge', [close(0), {'e': 'forge', 'ci': 0, 'which': which, 'n': 5}], {}),
        ('server-menu-excludes-suite', [close(0), cfg(c, menu=6)], {}),
        ('server-menu-excludes-suite2', [close(0), cfg(c, menu=3)], {}),
        ('client-menu-excludes-suite', [close(0)], {'menu': 6}),
        ('client-menu-excludes-suite2', [close(0)], {'menu': 5}),
        ('client-menu-chacha-only', [close(0)], {'menu': 3}),
        ('client-drops-ems', [close(0)], {'ems': False}),
        ('client-drops-etm', [close(0)], {'etm': False}),
        ('server-drops-ems', [close(0), cfg(c, ems=False)], {}),
        ('server-drops-etm', [close(0), cfg(c, etm=False)], {}),
        ('sni-changed', [close(0), {'e': 'devsni', 'ci': 0, 'sni': 2}], {'sni': 2}),
        ('sni-dropped', [close(0), {'e': 'devsni', 'ci': 0, 'sni': 0}], {'sni': 0}),
        ('other-client-cert', [close(0)], {'ccert': 2}),
        ('no-client-cert', [close(0)], {'ccert': 0}),
        ('reqcert-off', [close(0), cfg(c, reqcert=False)], {}),
        ('version-down', [close(0)], {'maxv': max(1, v - 1)}),
        ('server-version-down', [close(0), cfg(c, maxv=max(1, v - 1))], {}),
        ('foreign-server', [close(0)], {'srv': 1}),
        # the stale / mismatching offer comes WITHOUT a client certificate: nothing of the declined
        # session (identity, resumed flag) may show up on the connection
        ('keep-expired-nocert', [close(0), tick(life_q + 40), {'e': 'keep', 'ci': 0}], {'ccert': 0}),
        ('keep-8days-nocert', [close(0), tick(4 * 86400 * 8), {'e': 'keep', 'ci': 0}], {'ccert': 0}),
        ('lifetime-shortened-nocert', [close(0), tick(40), cfg(c, life=8)], {'ccert': 0}),
        ('other-hash-sha256-nocert', [close(0)], {'menu': 5, 'ccert': 0}),
        ('other-hash-sha384-nocert', [close(0)], {'menu': 8, 'ccert': 0}),
        ('other-hash-sha384', [close(0)], {'menu': 8}),
        ('rotate-drop-old-nocert', [close(0), cfg(c, keys=[7])], {'ccert': 0}),
        ('tamper-body-nocert', [close(0), {'e': 'tamper', 'ci': 0, 'which': which, 'bit': 300}], {'ccert': 0}),
        ('fatal-revive-nocert', [close(0, 1), {'e': 'revive', 'ci': 0}], {'ccert': 0}),
        ('other-cert-expired', [close(0), tick(life_q + 40), {'e': 'keep', 'ci': 0}], {'ccert': 2}),
        ('bad-binder', [close(0), {'e': 'devrms', 'ci': 0}], {}),
        ('bad-binder-nocert', [close(0), {'e': 'devrms', 'ci': 0}], {'ccert': 0}),
        # another client flavour offers the session: an anonymous client whose hello advertises only FFDHE
        # groups (the server then does not accept ECDHE suites at all: decline, not illegal_parameter) or
        # also EC groups (suite acceptable but not offered: illegal_parameter)
        ('anon-client-ffdh-only', [close(0)], {'kind': 2, 'menu': 5}),
        ('anon-client-ec', [close(0)], {'kind': 2, 'menu': 0}),
        # overlapping lifetimes: B is resumed from the session while A (the original) is still open; every order
        # of {failure on one, clean close on the other}: the shared Session / cache object must stay invalid
        ('overlap-fatalA-cleanB', [conn(v, offer=0), close(0, 1), close(1, 0)], {}),
        ('overlap-cleanB-fatalA', [conn(v, offer=0), close(1, 0), close(0, 1)], {}),
        ('overlap-fatalB-cleanA', [conn(v, offer=0), close(1, 1), close(0, 0)], {}),
        ('overlap-cleanA-fatalB', [conn(v, offer=0), close(0, 0), close(1, 1)], {}),
        ('overlap-abruptA-cleanB', [conn(v, offer=0), close(0, 2), close(1, 0)], {}),
        ('overlap-abruptB-cleanA', [conn(v, offer=0), close(1, 2), close(0, 0)], {}),
        ('overlap-abruptcA-cleanB-revive', [conn(v, offer=0), close(0, 3), close(1, 0)], {}),
        ('overlap3-fatalA-cleanB-cleanC', [conn(v, offer=0), conn(v, offer=0), close(0, 1), close(1, 0), close(2, 0)], {}),
        ('overlap3-cleanB-fatalC-cleanA', [conn(v, offer=0), conn(v, offer=0), close(1, 0), close(2, 1), close(0, 0)], {}),
        ('overlap-both-open', [conn(v, offer=0)], {}),
        ('twice', [close(0), conn(v, offer=0), close(1)], {}),
        ('twice-fatal-second', [close(0), conn(v, offer=0), close(1, 1)], {}),
        ('twice-abrupt-server-second', [close(0), conn(v, offer=0), close(1, 2)], {}),
        ('ticketconn-abrupt-then-sid', [close(0), cfg(c, maxage=14400), conn(v, offer=0), close(1, 2), tick(life_q + 4)], {}),
    ]
    return m


QUICK_OLD = ('plain', 'overlap-fatalA-cleanB', 'overlap-cleanA-fatalB', 'anon-client-ffdh-only', 'keep-expired-nocert', 'ticket-expiry', 'ticket-expiry+1', 'cache-age+1', 'rotate-keep-old', 'rotate-drop-old', 'fatal',
             'abrupt-server', 'tamper-body', 'client-drops-ems', 'sni-changed', 'foreign-server')


def scenarios(thorough=False):
    out = []
    for v in (1, 2, 3, 4):
        for mech in (['ticket'] if v == 4 else ['sid', 'ticket', 'both']):
            for first_variant in (['cbc', 'default', 'noems', 'srp', 'anon'] if v < 4 else ['default', 'sha256']):
                if not thorough:
                    if first_variant in ('srp', 'anon') and v < 3 and mech != 'ticket':
                        continue
                    if v < 3 and (mech == 'both' or first_variant not in ('cbc', 'srp', 'anon')):
                        continue
                    if v == 3 and ((mech == 'both' and first_variant != 'default') or
                                   (mech == 'sid' and first_variant == 'noems')):
                        continue
                auth = {'srp': 1, 'anon': 2}.get(first_variant, 0)
                c = base_cfg(v, mech, auth)
                kw = {}
                if auth:
                    kw = {'kind': auth}
                elif first_variant == 'cbc':
                    kw = {'menu': 6}
                elif first_variant == 'noems':
                    kw = {'ems': False, 'etm': False, 'ccert': 0}
                elif first_variant == 'sha256':
                    kw = {'menu': 5}
                other = dict(base_cfg(v, mech, auth), keys=[101] if mech != 'sid' else [])
                for name, mid, over in middles(c, v, mech):
                    if not thorough and v < 3 and name not in QUICK_OLD:
                        continue
                    if name.startswith('anon-client') and (auth == 1 or v == 4):
                        continue      # the client API refuses an SRP session for a non-SRP client; no anon in TLS 1.3
                    tag = 'v%d-%s-%s-%s' % (v, mech, first_variant, name)
                    if name == 'frac-issue-expiry':
                        # issue at a fractional second: the server floors the creation time, the client does not
                        evs = [tick(3), conn(v, **kw), close(0), tick(c['life'] * 4 - 2), conn(v, offer=0, **kw)]
                        out.append((tag, [c, other], evs))
                        continue
                    # connections inside the middle part are made by the same client flavour
                    kwc = dict(conn(v, **kw))
                    kwc = {k: kwc[k] for k in ('menu', 'ems', 'etm', 'ccert', 'kind', 'srp')}
                    kw2 = dict(kw)
                    kw2.update(over)
                    mv = kw2.pop('maxv', v)
                    srv = kw2.pop('srv', 0)
                    evs = ([conn(v, **kw)] + [dict(e, **kwc) if e['e'] == 'conn' else dict(e) for e in mid]
                           + [conn(mv, offer=0, srv=srv, **kw2)])
                    out.append((tag, [c, other], evs))
    # interleaving: handshake A is held up before the client's Finished reaches the server (hold point 1: whole
    # second flight, 2: from the ChangeCipherSpec on); while A hangs, B offers the session ID + master secret A's
    # client already knows; A is abandoned; C offers it again; D/E: a normal session still resumes afterwards
    for v in (1, 2, 3):
        for mech in ('sid', 'ticket', 'both'):
            for hp in (1, 2):
                for fv, kw in (('default', {}), ('cbc', {'menu': 6}), ('srp', {'kind': 1}), ('anon', {'kind': 2})):
                    if not thorough and (v < 3 and (fv != 'default' or mech == 'ticket')):
                        continue
                    auth = {'srp': 1, 'anon': 2}.get(fv, 0)
                    c = base_cfg(v, mech, auth)
                    for tail, evs in (
                            ('offer-while-held', [conn(v, half=hp, **kw), conn(v, offer=0, **kw), close(0, 2),
                                                  conn(v, offer=0, **kw), conn(v, **kw), close(3, 0), conn(v, offer=3, **kw)]),
                            ('two-held', [conn(v, half=hp, **kw), conn(v, half=3 - hp, **kw), conn(v, offer=1, **kw),
                                          conn(v, offer=0, **kw), close(1, 0), close(0, 1)])):
                        out.append(('v%d-%s-%s-held%d-%s' % (v, mech, fv, hp, tail), [c], evs))
    # single-bit flips of one TLS 1.2 ticket and one TLS 1.3 ticket (thorough: every bit)
    for v in (3, 4):
        c = base_cfg(v, 'ticket')
        c['reqcert'] = False
        for bit in (range(8 * 200) if thorough else range(0, 8 * 200, 97)):
            evs = [conn(v, ccert=0), close(0),
                   {'e': 'tamper', 'ci': 0, 'which': 1 if v == 4 else 0, 'bit': bit, 'strict': True},
                   conn(v, offer=0, ccert=0)]
            out.append(('v%d-bitflip-%d' % (v, bit), [c], evs))
    return out
