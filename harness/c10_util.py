"""Helpers for the C10 check: independent verifier (openssl CLI), crafted encodings,
peer-share classes, and fault injection into live handshakes.  Nothing here modifies /repo;
faults are injected into the *key object* handed to the signing endpoint (a faulty
private-key device), the endpoint's code runs unmodified."""
import hashlib
import os
import shutil
import subprocess
import sys
import tempfile

import loop

TESTS = loop.TESTS

# name, key file, kind
KEYS = [
    ('rsa2048', 'serverX509Key.pem', 'rsa'),
    ('rsa1024', 'clientX509Key.pem', 'rsa'),
    ('rsa-nonca', 'serverRSANonCAKey.pem', 'rsa'),
    # 8k+1-bit modulus (corpus): 256^k is far above n, so s+n always fits the signature length
    ('rsa1025', os.path.join(os.environ.get('VERIF_ROOT', '/verif'), 'corpus', 'C10', 'rsa1025.pem'), 'rsa'),
    ('rsapss', 'serverRSAPSSKey.pem', 'rsa-pss'),
    ('rsa-pss-signed-cert', 'serverRSAPSSSigKey.pem', 'rsa'),     # rsaEncryption key (its certificate is PSS-signed)
    ('rsapss-dc', 'serverDelCredRSAPSSKey.pem', 'rsa-pss-restricted'),
    ('p256', 'serverECKey.pem', 'ecdsa'),
    ('p384', 'serverP384ECKey.pem', 'ecdsa'),
    ('p521', 'serverP521ECKey.pem', 'ecdsa'),
    ('p256-client', 'clientECKey.pem', 'ecdsa'),
    ('p256-dc', 'serverDelCredSECP256r1Key.pem', 'ecdsa'),
    ('p384-dc', 'serverDelCredSECP384r1Key.pem', 'ecdsa'),
    ('bp256', 'serverBrainpoolP256r1ECKey.pem', 'ecdsa'),
    ('bp384', 'serverBrainpoolP384r1ECKey.pem', 'ecdsa'),
    ('bp512', 'serverBrainpoolP512r1ECKey.pem', 'ecdsa'),
    ('ed25519', 'serverEd25519Key.pem', 'eddsa'),
    ('ed448', 'serverEd448Key.pem', 'eddsa'),
    ('ed25519-client', 'clientEd25519Key.pem', 'eddsa'),
    ('ed25519-dc', 'serverDelCredEd25519Key.pem', 'eddsa'),
    ('dsa', 'serverDSAKey.pem', 'dsa'),
    ('dsa-client', 'clientDSAKey.pem', 'dsa'),
]
HLEN = {'md5': 16, 'sha1': 20, 'sha224': 28, 'sha256': 32, 'sha384': 48, 'sha512': 64}

# fixed unusual keys used as corpus for the two findings (generated once with `openssl genrsa`)
ODD_KEYS = {}   # filled by odd_key()


def load_key(fname):
    from tlslite.utils.keyfactory import parsePEMKey
    with open(os.path.join(TESTS, fname)) as f:
        return parsePEMKey(f.read(), private=True, implementations=['python'])


def schemes_for(kind):
    """(scheme, hash, salt_len) combinations signed with a key kind"""
    out = []
    if kind == 'rsa':
        for h in ('md5', 'sha1', 'sha224', 'sha256', 'sha384', 'sha512'):
            out.append(('pkcs1', h, 0))
    if kind == 'rsa-pss-restricted':      # key with RSASSA-PSS-params: SHA-256, MGF1-SHA-256, salt >= 32
        return [('pss', 'sha256', 32)]
    if kind in ('rsa', 'rsa-pss'):
        for h in ('sha256', 'sha384', 'sha512'):
            out.append(('pss', h, HLEN[h]))
        out += [('pss', 'sha256', 0), ('pss', 'sha1', 20), ('pss', 'sha256', 20)]
    if kind == 'ecdsa':
        out += [(None, h, None) for h in ('sha1', 'sha256', 'sha384', 'sha512')]
    if kind == 'eddsa':
        out += [(None, None, None)]
    if kind == 'dsa':
        out += [(None, 'sha1', None), (None, 'sha256', None)]
    return out


def tl_sign(key, kind, msg, scheme, h, slen):
    if kind in ('rsa', 'rsa-pss'):
        return bytes(key.hashAndSign(bytearray(msg), scheme, h, slen))
    if kind == 'ecdsa':
        # as the TLS code does (keyexchange.py): hash, keep the leftmost baselen bytes, sign the digest
        # (key.hashAndSign raises BadDigestError when the hash is longer than the curve order)
        d = hashlib.new(h, msg).digest()[:key.public_key.curve.baselen]
        return bytes(key.sign(bytearray(d), hashAlg=h))
    if kind == 'eddsa':
        return bytes(key.hashAndSign(bytearray(msg)))
    if kind == 'dsa':
        return bytes(key.hashAndSign(bytearray(msg), h))
    raise ValueError(kind)


def tl_verify(key, kind, sig, msg, scheme, h, slen):
    """Returns True/False, or ('exc', name) when verification raises"""
    try:
        if kind in ('rsa', 'rsa-pss'):
            r = key.hashAndVerify(bytearray(sig), bytearray(msg), scheme, h, slen)
        elif kind == 'ecdsa':
            d = hashlib.new(h, msg).digest()[:key.public_key.curve.baselen]
            r = key.verify(bytearray(sig), bytearray(d), None, h, None)
        elif kind == 'eddsa':
            r = key.hashAndVerify(bytearray(sig), bytearray(msg))
        elif kind == 'dsa':
            r = key.hashAndVerify(bytearray(sig), bytearray(msg), h)
        else:
            raise ValueError(kind)
        return bool(r)
    except Exception as e:  # noqa
        return ('exc', type(e).__name__)


class OpenSSL(object):
    """The independent verifier/signer: the openssl command line tool."""

    def __init__(self):
        self.dir = tempfile.mkdtemp(prefix='c10-ossl-')
        self.pub = {}
        self.n = 0

    def close(self):
        shutil.rmtree(self.dir, ignore_errors=True)

    def _f(self, name, data):
        p = os.path.join(self.dir, name)
        with open(p, 'wb') as f:
            f.write(data)
        return p

    def pubkey(self, keyfile):
        if keyfile not in self.pub:
            src = keyfile if os.path.isabs(keyfile) else os.path.join(TESTS, keyfile)
            out = os.path.join(self.dir, 'pub-%d.pem' % len(self.pub))
            r = subprocess.run(['openssl', 'pkey', '-in', src, '-pubout', '-out', out], capture_output=True)
            if r.returncode != 0:
                raise RuntimeError('openssl pkey failed for %s: %s' % (keyfile, r.stderr[:300]))
            self.pub[keyfile] = out
        return self.pub[keyfile]

    def _opts(self, kind, scheme, slen):
        if kind in ('rsa', 'rsa-pss') and scheme == 'pss':
            return ['-sigopt', 'rsa_padding_mode:pss', '-sigopt', 'rsa_pss_saltlen:%d' % slen]
        return []

    def verify(self, keyfile, kind, sig, msg, scheme, h, slen):
        """True / False (openssl says the signature is good / not)"""
        pub = self.pubkey(keyfile)
        m = self._f('m', msg)
        s = self._f('s', sig)
        if kind == 'eddsa':
            cmd = ['openssl', 'pkeyutl', '-verify', '-pubin', '-inkey', pub, '-rawin', '-in', m, '-sigfile', s]
        else:
            cmd = ['openssl', 'dgst', '-' + h, '-verify', pub, '-signature', s] + self._opts(kind, scheme, slen) + [m]
        r = subprocess.run(cmd, capture_output=True)
        out = r.stdout + r.stderr
        if b'Verified OK' in out or b'Signature Verified Successfully' in out:
            return True
        return False

    def sign(self, keyfile, kind, msg, scheme, h, slen):
        src = keyfile if os.path.isabs(keyfile) else os.path.join(TESTS, keyfile)
        m = self._f('m', msg)
        o = os.path.join(self.dir, 'o')
        if kind == 'eddsa':
            cmd = ['openssl', 'pkeyutl', '-sign', '-inkey', src, '-rawin', '-in', m, '-out', o]
        else:
            cmd = ['openssl', 'dgst', '-' + h, '-sign', src, '-out', o] + self._opts(kind, scheme, slen) + [m]
        r = subprocess.run(cmd, capture_output=True)
        if r.returncode != 0:
            return None
        with open(o, 'rb') as f:
            return f.read()


# ------------------------------------------------------------------------------------------
# crafted RSA blocks (made with the private key, so they are "well signed" but not canonical)
DIGESTINFO = {   # RFC 8017 9.2 note 1 (independent of tlslite's table)
    'md5': '3020300c06082a864886f70d020505000410',
    'sha1': '3021300906052b0e03021a05000414',
    'sha224': '302d300d06096086480165030402040500041c',
    'sha256': '3031300d060960864801650304020105000420',
    'sha384': '3041300d060960864801650304020205000430',
    'sha512': '3051300d060960864801650304020305000440',
}


def digestinfo(h, digest, null=True, long_len=False):
    pre = bytes.fromhex(DIGESTINFO[h])
    if null and not long_len:
        return pre + digest
    # parse: 30 L 30 l 06 n oid [05 00] 04 hl
    oid_len = pre[5]
    oid = pre[4:6 + oid_len]
    alg = oid + (b'\x05\x00' if null else b'')
    if long_len:
        inner = b'\x30\x81' + bytes([len(alg)]) + alg + b'\x04\x81' + bytes([len(digest)]) + digest
        return b'\x30\x81' + bytes([len(inner)]) + inner
    inner = b'\x30' + bytes([len(alg)]) + alg + b'\x04' + bytes([len(digest)]) + digest
    return b'\x30' + bytes([len(inner)]) + inner


def rsa_private_raw(key, em):
    """s = em^d mod n as numBytes(n) bytes, or None when em >= n"""
    from tlslite.utils.cryptomath import bytesToNumber, numberToByteArray, numBytes
    m = bytesToNumber(bytearray(em))
    if m >= key.n:
        return None
    return bytes(numberToByteArray(pow(m, int(key.d), int(key.n)), numBytes(key.n)))


def crafted_pkcs1(key, h, digest, rng):
    """[(class, signature bytes, should_accept)] -- every block is a real RSA signature of a
    non-canonical (or, for the two controls, canonical) encoding"""
    from tlslite.utils.cryptomath import numBytes
    k = numBytes(key.n)
    T = digestinfo(h, digest)
    out = []

    def add(cls, em, accept=False, sig_fix=None):
        if len(em) != k:
            return
        s = rsa_private_raw(key, em)
        if s is None:
            return
        if sig_fix:
            s = sig_fix(s)
        out.append((cls, s, accept))
    ps = k - len(T) - 3
    add('canonical', b'\x00\x01' + b'\xff' * ps + b'\x00' + T, True)
    for g in (1, 8, ps - 8 if ps > 16 else 2, ps):
        if 0 < g <= ps:
            add('garbage-after-hash-%s' % ('all' if g == ps else g), b'\x00\x01' + b'\xff' * (ps - g) + b'\x00' + T +
                bytes(rng.randrange(256) for _ in range(g)))
    add('short-ps-zero-fill', b'\x00\x01' + b'\xff' * 8 + b'\x00' * (ps - 8 + 1) + T)
    Tn = digestinfo(h, digest, null=False)
    add('missing-null', b'\x00\x01' + b'\xff' * (k - len(Tn) - 3) + b'\x00' + Tn, accept=(h == 'sha1'))
    Tl = digestinfo(h, digest, long_len=True)
    add('ber-long-lengths', b'\x00\x01' + b'\xff' * (k - len(Tl) - 3) + b'\x00' + Tl)
    other = 'sha256' if h != 'sha256' else 'sha384'
    To = bytes.fromhex(DIGESTINFO[other]) + digest
    add('wrong-prefix', b'\x00\x01' + b'\xff' * (k - len(To) - 3) + b'\x00' + To)
    add('bare-digest', b'\x00\x01' + b'\xff' * (k - len(digest) - 3) + b'\x00' + digest)
    add('block-type-0', b'\x00\x00' + b'\xff' * ps + b'\x00' + T)
    add('block-type-2', b'\x00\x02' + b'\xff' * ps + b'\x00' + T)
    i = rng.randrange(ps)
    add('ps-byte-fe', b'\x00\x01' + b'\xff' * i + b'\xfe' + b'\xff' * (ps - i - 1) + b'\x00' + T)
    add('ps-byte-00', b'\x00\x01' + b'\xff' * i + b'\x00' + b'\xff' * (ps - i - 1) + b'\x00' + T)
    add('separator-ff', b'\x00\x01' + b'\xff' * ps + b'\xff' + T)
    add('separator-01', b'\x00\x01' + b'\xff' * ps + b'\x01' + T)
    add('hash-last-bit-flipped', b'\x00\x01' + b'\xff' * ps + b'\x00' + T[:-1] + bytes([T[-1] ^ 1]))
    hp = len(T) - len(digest)
    add('hash-first-bit-flipped', b'\x00\x01' + b'\xff' * ps + b'\x00' + T[:hp] + bytes([T[hp] ^ 0x80]) + T[hp + 1:])
    j = hp + rng.randrange(len(digest))
    add('hash-random-bit-flipped', b'\x00\x01' + b'\xff' * ps + b'\x00' + T[:j] + bytes([T[j] ^ (1 << rng.randrange(8))]) + T[j + 1:])
    add('prefix-bit-flipped', b'\x00\x01' + b'\xff' * ps + b'\x00' + T[:hp - 1] + bytes([T[hp - 1] ^ 1]) + T[hp:])
    add('extra-leading-zero-sig', b'\x00\x01' + b'\xff' * ps + b'\x00' + T, sig_fix=lambda s: b'\x00' + s)
    add('leading-zero-stripped-sig', b'\x00\x01' + b'\xff' * ps + b'\x00' + T,
        sig_fix=lambda s: s.lstrip(b'\x00') if s[:1] == b'\x00' else s[1:])

    def plus_n(s):
        from tlslite.utils.cryptomath import bytesToNumber, numberToByteArray
        v = bytesToNumber(bytearray(s)) + int(key.n)
        return bytes(numberToByteArray(v, k + 1))
    add('sig-plus-modulus', b'\x00\x01' + b'\xff' * ps + b'\x00' + T, sig_fix=plus_n)
    return out


def mgf1(seed, n, h):
    out = b''
    c = 0
    while len(out) < n:
        out += hashlib.new(h, seed + c.to_bytes(4, 'big')).digest()
        c += 1
    return out[:n]


def pss_em(key, mhash, h, salt, **dev):
    """EMSA-PSS-ENCODE from RFC 8017 9.1.1 written from the RFC, with optional deviations"""
    from tlslite.utils.cryptomath import numBits
    embits = numBits(key.n) - 1
    emlen = (embits + 7) // 8
    hl = HLEN[h]
    H = hashlib.new(h, b'\x00' * 8 + mhash + salt).digest()
    if dev.get('bad_h') is not None:
        i = dev['bad_h'] % len(H)
        H = H[:i] + bytes([H[i] ^ dev.get('bad_h_bit', 0x40)]) + H[i + 1:]
    ps = b'\x00' * (emlen - len(salt) - hl - 2)
    if dev.get('ps_nonzero') and ps:
        ps = ps[:-1] + b'\x04'
    db = ps + bytes([dev.get('sep', 1)]) + salt
    mask = mgf1(H, emlen - hl - 1, h)
    mdb = bytearray(a ^ b for a, b in zip(db, mask))
    top = 8 * emlen - embits
    mdb[0] &= 0xff >> top
    if dev.get('top_bit') and top:
        mdb[0] |= 0x80
    em = bytes(mdb) + H + bytes([dev.get('trailer', 0xbc)])
    return em, emlen


def crafted_pss(key, h, mhash, slen, rng):
    """[(class, signature, expected_salt_len, should_accept)]"""
    from tlslite.utils.cryptomath import numBytes
    k = numBytes(key.n)
    salt = bytes(rng.randrange(256) for _ in range(slen))
    out = []

    def add(cls, accept, verify_slen=slen, s=salt, **dev):
        em, emlen = pss_em(key, mhash, h, s, **dev)
        em = b'\x00' * (k - emlen) + em
        sg = rsa_private_raw(key, em)
        if sg is not None:
            out.append((cls, sg, verify_slen, accept))
    add('canonical', True)
    add('trailer-bd', False, trailer=0xbd)
    add('trailer-cc', False, trailer=0xcc)
    from tlslite.utils.cryptomath import numBits as _nb
    if (_nb(key.n) - 1) % 8:          # (emBits a multiple of 8: EM has no unused top bits)
        add('top-bit-set', False, top_bit=True)
    add('ps-nonzero', False, ps_nonzero=True)
    add('separator-02', False, sep=2)
    add('separator-00', False, sep=0)
    add('h-corrupted-first-byte', False, bad_h=0)
    add('h-corrupted-last-byte', False, bad_h=-1, bad_h_bit=0x01)
    add('h-corrupted-random-byte', False, bad_h=rng.randrange(HLEN[h]), bad_h_bit=1 << rng.randrange(8))
    add('salt-longer-than-expected', False, verify_slen=slen, s=salt + b'\x07')
    if slen:
        add('salt-shorter-than-expected', False, verify_slen=slen, s=salt[:-1])
    return out


# ------------------------------------------------------------------------------------------
# small-order / invalid public values
# u-coordinates of the points of small order on Curve25519 (order 1, 2, 4, 8) and their
# non-canonical aliases >= p (from the "May the fourth" / libsodium blacklist, derivable from RFC 7748)
P25519 = 2 ** 255 - 19
X25519_LOW_ORDER = [
    0, 1,
    325606250916557431795983626356110631294008115727848805560023387167927233504,
    39382357235489614581723060781553021112529911719440698176882885853963445705823,
    P25519 - 1, P25519, P25519 + 1,
]
P448 = 2 ** 448 - 2 ** 224 - 1
X448_LOW_ORDER = [0, 1, P448 - 1, P448, P448 + 1]


def x_low_order_shares(is448):
    size = 56 if is448 else 32
    vals = X448_LOW_ORDER if is448 else X25519_LOW_ORDER
    out = []
    for v in vals:
        if v < 256 ** size:
            out.append(v.to_bytes(size, 'little'))
    if not is448:
        # the same points with the ignored top bit set
        out += [bytes(b[:31]) + bytes([b[31] | 0x80]) for b in list(out)]
    return out


def ffdh_bad_shares(p):
    n = (p.bit_length() + 7) // 8
    return [('0', 0), ('1', 1), ('p-1', p - 1), ('p', p), ('p+1', p + 1), ('2p-1', 2 * p - 1),
            ('2^k', 1 << (8 * n)), ('-1', -1)]


def ec_bad_points(curve, rng):
    """encodings that are not valid points of `curve` (python-ecdsa curve object)"""
    size = (curve.curve.p().bit_length() + 7) // 8
    g = curve.generator
    x, y = g.x(), g.y()
    p = curve.curve.p()
    out = []
    out.append(('off-curve-y+1', b'\x04' + x.to_bytes(size, 'big') + ((y + 1) % p).to_bytes(size, 'big')))
    out.append(('off-curve-random', b'\x04' + bytes(rng.randrange(256) for _ in range(2 * size))))
    out.append(('zero-point', b'\x04' + b'\x00' * (2 * size)))
    out.append(('infinity', b'\x00'))
    out.append(('empty', b''))
    out.append(('truncated', b'\x04' + x.to_bytes(size, 'big') + y.to_bytes(size, 'big')[:-1]))
    out.append(('extended', b'\x04' + x.to_bytes(size, 'big') + y.to_bytes(size, 'big') + b'\x00'))
    out.append(('x>=p', b'\x04' + (x + p).to_bytes(size + 1, 'big')[-size:] + y.to_bytes(size, 'big'))
               if (x + p) < 256 ** size else ('x=p', b'\x04' + p.to_bytes(size, 'big') + y.to_bytes(size, 'big')))
    out.append(('compressed-not-offered', bytes([2 + (y & 1)]) + x.to_bytes(size, 'big')))
    out.append(('hybrid', bytes([6 + (y & 1)]) + x.to_bytes(size, 'big') + y.to_bytes(size, 'big')))
    out.append(('bad-prefix', b'\x05' + x.to_bytes(size, 'big') + y.to_bytes(size, 'big')))
    return out
