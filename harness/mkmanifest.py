"""Regenerate /verif/MANIFEST.json from the META dict of every harness/props/Cxx.py."""
import importlib
import json
import os
import sys

HERE = os.path.dirname(os.path.abspath(__file__))
ROOT = os.path.dirname(HERE)
sys.path.insert(0, HERE)
os.environ.setdefault('VERIF_ROOT', ROOT)

ALL = ['C%02d' % i for i in range(1, 21)]
NOT_BUILT = 'check not built yet in this development (planned in DESIGN.md section 5); not claimed'


def main():
    checks, na = [], []
    for pid in ALL:
        path = os.path.join(HERE, 'props', pid + '.py')
        if not os.path.exists(path):
            na.append({'property_id': pid, 'reason': NOT_BUILT})
            continue
        mod = importlib.import_module('props.' + pid)
        m = getattr(mod, 'META', None)
        if not m or m.get('unclaimed'):
            na.append({'property_id': pid, 'reason': (m or {}).get('unclaimed', NOT_BUILT)})
            continue
        checks.append({
            'property_id': pid,
            'quick_cmd': './check %s --tier quick' % pid,
            'thorough_cmd': './check %s --tier thorough' % pid,
            'evidence_file': 'evidence/%s.json' % pid,
            'replay_cmd_template': './check %s --replay {path}' % pid,
            'engine': 'coq+correspondence',
            'level_claimed': {'category': getattr(mod, 'LEVEL', 'proof'), 'text': m['text'],
                              'design_ref': m.get('design_ref', 'DESIGN.md section 5, ' + pid)},
            'level_note': m['note'],
            'technique': m['technique'],
        })
    man = {
        'version': 1,
        'setup_cmd': './setup.sh',
        'hooks': {
            'guard': 'TLSLITE_NG_VERIF',
            'enable': 'no hooks are installed in /repo: the harness substitutes randomness, clock, sockets and private-key '
                      'operations by monkey-patching module attributes from its own process',
            'baseline_off_cmd': 'cd /repo && /venv/bin/python -m pytest -ra -q -p no:cacheprovider --timeout=900 '
                                '--continue-on-collection-errors --junitxml=/tmp/baseline.junit.xml',
            'source_commits': [],
            'add_only': True,
        },
        'engines': [{'name': 'coq+correspondence', 'path': 'check',
                     'serves_properties': [c['property_id'] for c in checks],
                     'kind_free_text': 'Coq 8.16.1 theorems about a model (coq/), tied to /repo on every run by a '
                                       'Python-ast translator (translator/, coq/Gen regenerated) and/or a correspondence '
                                       'check evaluating the model by vm_compute on the cases the implementation ran (harness/)'}],
        'checks': checks,
        'not_applicable': na,
        'notes': 'Single entry point ./check Cxx --tier quick|thorough. See DESIGN.md. known_findings.json lists genuine defects.',
    }
    with open(os.path.join(ROOT, 'MANIFEST.json'), 'w') as f:
        json.dump(man, f, indent=1)
    print('claimed:', [c['property_id'] for c in checks])
    print('not claimed:', [n['property_id'] for n in na])


if __name__ == '__main__':
    main()
