"""C09: independent references, written from the standards (RFC 8439, 5869, 5246, 2246, 6101,
8446, 7627, SP 800-38A/C/D) on top of hashlib/hmac and the openssl command line only.
Nothing here imports tlslite."""
import hashlib
import hmac as pyhmac
import struct
import subprocess

# --------------------------------------------------------------------------- openssl CLI


def openssl(args, data=b''):
    p = subprocess.run(['openssl'] + args, input=data, stdout=subprocess.PIPE, stderr=subprocess.PIPE, timeout=60)
    if p.returncode != 0:
        raise RuntimeError('openssl %s failed: %s' % (' '.join(args), p.stderr.decode()[:300]))
    return p.stdout


def ossl_poly1305(key, msg):
    out = openssl(['mac', '-macopt', 'hexkey:' + bytes(key).hex(), 'POLY1305'], bytes(msg))
    return bytes.fromhex(out.decode().strip())


def ossl_chacha20(key, counter, nonce, data):
    iv = struct.pack('<L', counter) + bytes(nonce)
    return openssl(['enc', '-chacha20', '-K', bytes(key).hex(), '-iv', iv.hex()], bytes(data))


def ossl_ecb(cipher, key, blocks, decrypt=False):
    """cipher: aes-128-ecb / aes-192-ecb / aes-256-ecb / des-ede3 / des-ede ...; blocks: bytes (multiple of block size)"""
    args = ['enc', '-' + cipher, '-K', bytes(key).hex(), '-nopad']
    if decrypt:
        args.append('-d')
    if cipher.startswith('des'):
        args += ['-provider', 'legacy', '-provider', 'default'] if cipher in ('des-ecb',) else []
    return openssl(args, bytes(blocks))


def ossl_cbc(cipher, key, iv, data, decrypt=False):
    args = ['enc', '-' + cipher, '-K', bytes(key).hex(), '-iv', bytes(iv).hex(), '-nopad']
    if decrypt:
        args.append('-d')
    return openssl(args, bytes(data))


def ossl_kdf(name, keylen, opts):
    args = ['kdf', '-keylen', str(keylen), '-binary']
    for o in opts:
        args += ['-kdfopt', o]
    return openssl(args + [name])


# --------------------------------------------------------------------------- RFC 8439
P1305 = (1 << 130) - 5


def poly1305(key, msg):
    key, msg = bytes(key), bytes(msg)
    r = int.from_bytes(key[:16], 'little') & 0x0ffffffc0ffffffc0ffffffc0fffffff
    s = int.from_bytes(key[16:], 'little')
    acc = 0
    for i in range(0, len(msg), 16):
        n = int.from_bytes(msg[i:i + 16] + b'\x01', 'little')
        acc = ((acc + n) * r) % P1305
    return ((acc + s) & ((1 << 128) - 1)).to_bytes(16, 'little')


def _rotl(x, n):
    return ((x << n) | (x >> (32 - n))) & 0xffffffff


def _qr(s, a, b, c, d):
    s[a] = (s[a] + s[b]) & 0xffffffff
    s[d] = _rotl(s[d] ^ s[a], 16)
    s[c] = (s[c] + s[d]) & 0xffffffff
    s[b] = _rotl(s[b] ^ s[c], 12)
    s[a] = (s[a] + s[b]) & 0xffffffff
    s[d] = _rotl(s[d] ^ s[a], 8)
    s[c] = (s[c] + s[d]) & 0xffffffff
    s[b] = _rotl(s[b] ^ s[c], 7)


def chacha20_block(key, counter, nonce, rounds=20):
    st = [0x61707865, 0x3320646e, 0x79622d32, 0x6b206574] + list(struct.unpack('<8L', bytes(key))) + \
        [counter & 0xffffffff] + list(struct.unpack('<3L', bytes(nonce)))
    w = list(st)
    for _ in range(rounds // 2):
        _qr(w, 0, 4, 8, 12); _qr(w, 1, 5, 9, 13); _qr(w, 2, 6, 10, 14); _qr(w, 3, 7, 11, 15)   # noqa: E702
        _qr(w, 0, 5, 10, 15); _qr(w, 1, 6, 11, 12); _qr(w, 2, 7, 8, 13); _qr(w, 3, 4, 9, 14)   # noqa: E702
    return struct.pack('<16L', *[(a + b) & 0xffffffff for a, b in zip(st, w)])


def chacha20_encrypt(key, counter, nonce, data):
    data = bytes(data)
    out = bytearray()
    for j in range(0, len(data), 64):
        ks = chacha20_block(key, counter + j // 64, nonce)
        out += bytes(a ^ b for a, b in zip(data[j:j + 64], ks))
    return bytes(out)


def _pad16(x):
    return b'\x00' * (-len(x) % 16)


def aead_chacha_tag(key, nonce, aad, ct):
    otk = chacha20_block(key, 0, nonce)[:32]
    mac_data = bytes(aad) + _pad16(aad) + bytes(ct) + _pad16(ct) + struct.pack('<Q', len(aad)) + struct.pack('<Q', len(ct))
    return poly1305(otk, mac_data)


def aead_chacha_seal(key, nonce, pt, aad):
    ct = chacha20_encrypt(key, 1, nonce, pt)
    return ct + aead_chacha_tag(key, nonce, aad, ct)


def aead_chacha_open(key, nonce, c, aad):
    c = bytes(c)
    if len(c) < 16:
        return None
    ct, tag = c[:-16], c[-16:]
    if aead_chacha_tag(key, nonce, aad, ct) != tag:
        return None
    return chacha20_encrypt(key, 1, nonce, ct)


def ossl_aead_chacha_seal(key, nonce, pt, aad):
    """RFC 8439 2.8 composed from openssl's chacha20 and POLY1305 only"""
    otk = ossl_chacha20(key, 0, nonce, bytes(32))
    ct = ossl_chacha20(key, 1, nonce, pt)
    mac_data = bytes(aad) + _pad16(aad) + ct + _pad16(ct) + struct.pack('<Q', len(aad)) + struct.pack('<Q', len(ct))
    return ct + ossl_poly1305(otk, mac_data)


# --------------------------------------------------------------------------- KDFs
def hkdf_expand(prk, info, L, alg):
    """RFC 5869 2.3"""
    hl = hashlib.new(alg).digest_size
    if L > 255 * hl:
        raise ValueError('L too large')
    t, okm, i = b'', b'', 0
    while len(okm) < L:
        i += 1
        t = pyhmac.new(bytes(prk), t + bytes(info) + bytes([i]), alg).digest()
        okm += t
    return okm[:L]


def ossl_hkdf_expand(prk, info, L, alg):
    opts = ['digest:' + alg.upper(), 'mode:EXPAND_ONLY', 'hexkey:' + bytes(prk).hex()]
    if info:
        opts.append('hexinfo:' + bytes(info).hex())
    return ossl_kdf('HKDF', L, opts)


def hkdf_expand_label(secret, label, context, length, alg):
    """RFC 8446 7.1"""
    full = b'tls13 ' + bytes(label)
    info = struct.pack('>H', length) + bytes([len(full)]) + full + bytes([len(context)]) + bytes(context)
    return hkdf_expand(secret, info, length, alg)


def derive_secret(secret, label, messages, alg):
    return hkdf_expand_label(secret, label, hashlib.new(alg, bytes(messages)).digest(), hashlib.new(alg).digest_size, alg)


def p_hash(alg, secret, seed, n):
    """RFC 5246 5"""
    a, out = bytes(seed), b''
    while len(out) < n:
        a = pyhmac.new(bytes(secret), a, alg).digest()
        out += pyhmac.new(bytes(secret), a + bytes(seed), alg).digest()
    return out[:n]


def prf_tls10(secret, label, seed, n):
    """RFC 2246 5"""
    secret = bytes(secret)
    half = (len(secret) + 1) // 2
    s1, s2 = secret[:half], secret[len(secret) - half:]
    a = p_hash('md5', s1, bytes(label) + bytes(seed), n)
    b = p_hash('sha1', s2, bytes(label) + bytes(seed), n)
    return bytes(x ^ y for x, y in zip(a, b))


def prf_tls12(alg, secret, label, seed, n):
    return p_hash(alg, secret, bytes(label) + bytes(seed), n)


def ossl_tls1_prf(alg, secret, label_seed, n):
    digest = {'md5sha1': 'MD5-SHA1', 'sha256': 'SHA256', 'sha384': 'SHA384'}[alg]
    opts = ['digest:' + digest, 'hexsecret:' + bytes(secret).hex(), 'hexseed:' + bytes(label_seed).hex()]
    return ossl_kdf('TLS1-PRF', n, opts)


def prf_ssl3(secret, seed, n):
    """RFC 6101 6.2.2"""
    out, i = b'', 0
    while len(out) < n:
        if i >= 26:
            raise ValueError('SSLv3 key block longer than 26 rounds is not defined')
        salt = bytes([65 + i]) * (i + 1)
        out += hashlib.md5(bytes(secret) + hashlib.sha1(salt + bytes(secret) + bytes(seed)).digest()).digest()
        i += 1
    return out[:n]


def ssl3_finished(messages, master, sender):
    """RFC 6101 5.6.9"""
    m, master = bytes(messages), bytes(master)
    md5 = hashlib.md5(master + b'\x5c' * 48 + hashlib.md5(m + sender + master + b'\x36' * 48).digest()).digest()
    sha = hashlib.sha1(master + b'\x5c' * 40 + hashlib.sha1(m + sender + master + b'\x36' * 40).digest()).digest()
    return md5 + sha


def calc_key_ref(version, secret, prf_alg, purpose, messages=None, cr=None, sr=None, n=None):
    """purpose in master/ems/keyexp/cfin/sfin; the table of RFC 6101, 2246/4346, 5246, 7627"""
    version = tuple(version)
    label = {'master': b'master secret', 'ems': b'extended master secret', 'keyexp': b'key expansion',
             'cfin': b'client finished', 'sfin': b'server finished'}[purpose]
    if version == (3, 0):
        if purpose in ('cfin', 'sfin'):
            return ssl3_finished(messages, secret, b'CLNT' if purpose == 'cfin' else b'SRVR')
        if purpose == 'ems':
            raise ValueError('no extended master secret in SSLv3')
        seed = bytes(cr) + bytes(sr) if purpose == 'master' else bytes(sr) + bytes(cr)
        return prf_ssl3(secret, seed, n)
    if purpose == 'master':
        seed = bytes(cr) + bytes(sr)
    elif purpose == 'keyexp':
        seed = bytes(sr) + bytes(cr)
    elif version in ((3, 1), (3, 2)):
        seed = hashlib.md5(bytes(messages)).digest() + hashlib.sha1(bytes(messages)).digest()
    else:
        seed = hashlib.new(prf_alg, bytes(messages)).digest()
    if version in ((3, 1), (3, 2)):
        return prf_tls10(secret, label, seed, n)
    return prf_tls12(prf_alg, secret, label, seed, n)


# --------------------------------------------------------------------------- RC4, block modes
def rc4_init(key):
    key = bytes(key)
    S, j = list(range(256)), 0
    for i in range(256):
        j = (j + S[i] + key[i % len(key)]) % 256
        S[i], S[j] = S[j], S[i]
    return [S, 0, 0]


def rc4_crypt(st, data):
    S, i, j = st
    out = bytearray()
    for b in bytes(data):
        i = (i + 1) % 256
        j = (j + S[i]) % 256
        S[i], S[j] = S[j], S[i]
        out.append(b ^ S[(S[i] + S[j]) % 256])
    st[1], st[2] = i, j
    return bytes(out)


def ossl_rc4(key, data):
    return openssl(['enc', '-rc4', '-K', bytes(key).hex(), '-provider', 'legacy', '-provider', 'default'], bytes(data))


def ossl_ctr(key, counter_block, data):
    return openssl(['enc', '-aes-%d-ctr' % (len(key) * 8), '-K', bytes(key).hex(), '-iv', bytes(counter_block).hex()], bytes(data))


def aes_ecb(key, blocks, decrypt=False):
    if not blocks:
        return b''
    return ossl_ecb('aes-%d-ecb' % (len(key) * 8), key, blocks, decrypt)


def des3_ecb(key, blocks, decrypt=False):
    if not blocks:
        return b''
    return ossl_ecb('des-ede3-ecb' if len(key) == 24 else 'des-ede-ecb', key, blocks, decrypt)


def cbc_encrypt(ecb, bs, iv, data):
    """SP 800-38A 6.2 on top of an ECB oracle ecb(blocks)"""
    out, prev = b'', bytes(iv)
    for i in range(0, len(data), bs):
        prev = ecb(bytes(a ^ b for a, b in zip(data[i:i + bs], prev)))
        out += prev
    return out


def ctr_crypt(ecb, t0, data):
    """SP 800-38A 6.5, standard incrementing function over the whole 16-byte block"""
    n = (len(data) + 15) // 16
    t = int.from_bytes(bytes(t0), 'big')
    ctrs = b''.join(((t + i) % (1 << 128)).to_bytes(16, 'big') for i in range(n))
    ks = ecb(ctrs) if n else b''
    return bytes(a ^ b for a, b in zip(bytes(data), ks))


# --------------------------------------------------------------------------- AES-GCM / AES-CCM
def _gf_mul(x, y):
    """SP 800-38D 6.3 Algorithm 1 on 128-bit integers (leftmost bit = msb)"""
    z, v = 0, y
    R = 0xe1 << 120
    for i in range(128):
        if (x >> (127 - i)) & 1:
            z ^= v
        v = (v >> 1) ^ R if v & 1 else v >> 1
    return z


def _ghash(h, data):
    y = 0
    for i in range(0, len(data), 16):
        y = _gf_mul(y ^ int.from_bytes(data[i:i + 16], 'big'), h)
    return y


def _pad16z(b):
    return bytes(b) + b'\x00' * (-len(b) % 16)


def gcm_seal(ecb, iv, p, a):
    """ecb(blocks) = AES-ECB under the key; 96-bit IV"""
    p, a, iv = bytes(p), bytes(a), bytes(iv)
    n = (len(p) + 15) // 16
    ctrs = b''.join(iv + struct.pack('>L', (2 + i) & 0xffffffff) for i in range(n))
    out = ecb(bytes(16) + iv + b'\x00\x00\x00\x01' + ctrs)
    h, ek_j0, ks = int.from_bytes(out[:16], 'big'), out[16:32], out[32:]
    c = bytes(x ^ y for x, y in zip(p, ks))
    s = _ghash(h, _pad16z(a) + _pad16z(c) + struct.pack('>QQ', len(a) * 8, len(c) * 8))
    t = bytes(x ^ y for x, y in zip(s.to_bytes(16, 'big'), ek_j0))
    return c + t


def gcm_open(ecb, iv, c, a):
    c = bytes(c)
    if len(c) < 16:
        return None
    ct, tag = c[:-16], c[-16:]
    n = (len(ct) + 15) // 16
    ctrs = b''.join(bytes(iv) + struct.pack('>L', (2 + i) & 0xffffffff) for i in range(n))
    out = ecb(bytes(16) + bytes(iv) + b'\x00\x00\x00\x01' + ctrs)
    h, ek_j0, ks = int.from_bytes(out[:16], 'big'), out[16:32], out[32:]
    s = _ghash(h, _pad16z(a) + _pad16z(ct) + struct.pack('>QQ', len(a) * 8, len(ct) * 8))
    if bytes(x ^ y for x, y in zip(s.to_bytes(16, 'big'), ek_j0)) != tag:
        return None
    return bytes(x ^ y for x, y in zip(ct, ks))


def ossl_gmac(key, iv, aad):
    out = openssl(['mac', '-cipher', 'AES-%d-GCM' % (len(key) * 8), '-macopt', 'hexkey:' + bytes(key).hex(),
                   '-macopt', 'hexiv:' + bytes(iv).hex(), 'GMAC'], bytes(aad))
    return bytes.fromhex(out.decode().strip())


def _ccm_parts(M, nonce, a, m):
    L = 15 - len(nonce)
    b0 = bytes([64 * (len(a) > 0) + 8 * ((M - 2) // 2) + (L - 1)]) + bytes(nonce) + len(m).to_bytes(L, 'big')
    if len(a) == 0:
        enc = b''
    elif len(a) < 2 ** 16 - 2 ** 8:
        enc = len(a).to_bytes(2, 'big')
    elif len(a) < 2 ** 32:
        enc = b'\xff\xfe' + len(a).to_bytes(4, 'big')
    else:
        enc = b'\xff\xff' + len(a).to_bytes(8, 'big')
    return L, b0 + (_pad16z(enc + bytes(a)) if a else b'') + _pad16z(m)


def ccm_seal(ecb, M, nonce, m, a):
    """RFC 3610; ecb(blocks) = AES-ECB under the key"""
    m, a, nonce = bytes(m), bytes(a), bytes(nonce)
    L, mac_in = _ccm_parts(M, nonce, a, m)
    x = bytes(16)
    for i in range(0, len(mac_in), 16):
        x = ecb(bytes(p ^ q for p, q in zip(x, mac_in[i:i + 16])))
    n = (len(m) + 15) // 16
    s = ecb(b''.join(bytes([L - 1]) + nonce + i.to_bytes(L, 'big') for i in range(0, n + 1)))
    c = bytes(p ^ q for p, q in zip(m, s[16:]))
    return c + bytes(p ^ q for p, q in zip(x[:M], s[:16]))


def ccm_open(ecb, M, nonce, c, a):
    c, nonce = bytes(c), bytes(nonce)
    if len(c) < M:
        return None
    ct, u = c[:len(c) - M], c[len(c) - M:]
    L = 15 - len(nonce)
    n = (len(ct) + 15) // 16
    s = ecb(b''.join(bytes([L - 1]) + nonce + i.to_bytes(L, 'big') for i in range(0, n + 1)))
    m = bytes(p ^ q for p, q in zip(ct, s[16:]))
    if ccm_seal(ecb, M, nonce, m, a) != c:
        return None
    return m
