"""C05: reference signature verification written from the standards, independent of the
signature code of /repo (tlslite/utils/*key.py): FIPS 186-4 DSA and ECDSA range rules, RFC 8017
RSASSA-PKCS1-v1_5 and RSASSA-PSS, RFC 8032 EdDSA (S < L).  Only key NUMBERS are taken from the
parsed certificate; elliptic-curve point arithmetic comes from python-ecdsa (not part of /repo).

Also: constructors of algebraic EDGE signatures for every key type (r or s in {0, 1, q-1, q, q+1},
over-long / non-minimal / negative DER integers, trailing bytes; EdDSA S >= L, S = 0; RSA
signature integers 0, 1, n-1, n, s+n, stripped / extra leading zero).
"""
import hashlib

PKCS1_PREFIX = {
    'md5': bytes.fromhex('3020300c06082a864886f70d020505000410'),
    'sha1': bytes.fromhex('3021300906052b0e03021a05000414'),
    'sha224': bytes.fromhex('302d300d06096086480165030402040500041c'),
    'sha256': bytes.fromhex('3031300d060960864801650304020105000420'),
    'sha384': bytes.fromhex('3041300d060960864801650304020205000430'),
    'sha512': bytes.fromhex('3051300d060960864801650304020305000440'),
}


# ---- strict DER for SEQUENCE { INTEGER r, INTEGER s } (X.690: definite, minimal lengths, minimal
#      two's complement integers, nothing after the SEQUENCE)
def _der_len(b, i):
    if i >= len(b):
        raise ValueError('truncated')
    first = b[i]
    i += 1
    if first < 0x80:
        return first, i
    n = first & 0x7f
    if n == 0 or n > 4 or i + n > len(b):
        raise ValueError('bad length')
    v = int.from_bytes(b[i:i + n], 'big')
    if v < 0x80 or b[i] == 0:
        raise ValueError('non-minimal length')
    return v, i + n


def _der_int(b, i):
    if i >= len(b) or b[i] != 0x02:
        raise ValueError('INTEGER expected')
    ln, i = _der_len(b, i + 1)
    if ln == 0 or i + ln > len(b):
        raise ValueError('bad INTEGER')
    body = b[i:i + ln]
    if ln > 1 and ((body[0] == 0 and body[1] < 0x80) or (body[0] == 0xff and body[1] >= 0x80)):
        raise ValueError('non-minimal INTEGER')
    return int.from_bytes(body, 'big', signed=True), i + ln


def parse_der_rs(sig):
    b = bytes(sig)
    if not b or b[0] != 0x30:
        raise ValueError('SEQUENCE expected')
    ln, i = _der_len(b, 1)
    if i + ln != len(b):
        raise ValueError('length mismatch / trailing bytes')
    r, i = _der_int(b, i)
    s, i = _der_int(b, i)
    if i != len(b):
        raise ValueError('junk inside SEQUENCE')
    return r, s


def der_int(v, pad=0, force_bytes=None):
    if force_bytes is not None:
        body = force_bytes
    else:
        n = max(1, (v.bit_length() + 8) // 8) if v >= 0 else max(1, ((-v - 1).bit_length() + 8) // 8)
        body = v.to_bytes(n, 'big', signed=True)
        body = b'\x00' * pad + body
    return b'\x02' + der_length(len(body)) + body


def der_length(n):
    if n < 0x80:
        return bytes([n])
    b = n.to_bytes((n.bit_length() + 7) // 8, 'big')
    return bytes([0x80 | len(b)]) + b


def der_rs(r, s, pad_r=0, pad_s=0, trailer=b''):
    body = der_int(r, pad_r) + der_int(s, pad_s)
    return b'\x30' + der_length(len(body)) + body + trailer


# ---- reference verifiers ------------------------------------------------------------------
def dsa_numbers(pub):
    return int(pub.p), int(pub.q), int(pub.g), int(pub.public_key)


def ref_dsa_verify(pub, digest, sig):
    """FIPS 186-4 4.7"""
    p, q, g, y = dsa_numbers(pub)
    try:
        r, s = parse_der_rs(sig)
    except ValueError:
        return False
    if not (0 < r < q and 0 < s < q):
        return False
    n = q.bit_length()
    z = int.from_bytes(bytes(digest), 'big')
    if len(digest) * 8 > n:
        z >>= len(digest) * 8 - n
    w = pow(s, -1, q)
    u1, u2 = (z * w) % q, (r * w) % q
    v = (pow(g, u1, p) * pow(y, u2, p)) % p % q
    return v == r


def ref_ecdsa_verify(pub, digest, sig):
    """FIPS 186-4 6.4; the curve arithmetic is python-ecdsa's"""
    vk = pub.public_key
    n = vk.curve.order
    try:
        r, s = parse_der_rs(sig)
    except ValueError:
        return False
    if not (0 < r < n and 0 < s < n):
        return False
    from ecdsa.util import sigdecode_string, number_to_string
    try:
        raw = number_to_string(r, n) + number_to_string(s, n)
        return bool(vk.verify_digest(raw, bytes(digest), sigdecode=sigdecode_string, allow_truncate=True))
    except Exception:   # noqa  BadSignatureError
        return False


ED_L = {32: 2 ** 252 + 27742317777372353535851937790883648493,
        57: 2 ** 446 - 13818066809895115352007386748515426880336692474882178609894547503885}


def ref_eddsa_verify(pub, msg, sig):
    """RFC 8032 5.1.7 / 5.2.7 (S must be below the group order); arithmetic by python-ecdsa"""
    sig = bytes(sig)
    vk = pub.public_key
    half = len(sig) // 2
    if half not in ED_L or len(sig) != 2 * half:
        return False
    if int.from_bytes(sig[half:], 'little') >= ED_L[half]:
        return False
    try:
        return bool(vk.verify(sig, bytes(msg)))
    except Exception:   # noqa
        return False


def _mgf1(seed, n, hname):
    out = b''
    c = 0
    while len(out) < n:
        out += hashlib.new(hname, seed + c.to_bytes(4, 'big')).digest()
        c += 1
    return out[:n]


def ref_rsa_verify(pub, digest, sig, pad, hname):
    """RFC 8017 8.2.2 / 8.1.2.  digest = hash of the message (for TLS < 1.2: MD5||SHA-1, hname None,
    no DigestInfo).  pad: 'pkcs1' | 'pss' (salt length = hash length)"""
    n, e = int(pub.n), int(pub.e)
    k = (n.bit_length() + 7) // 8
    sig = bytes(sig)
    if len(sig) != k:
        return False
    s = int.from_bytes(sig, 'big')
    if s >= n:
        return False
    m = pow(s, e, n)
    digest = bytes(digest)
    if pad == 'pkcs1':
        t = (PKCS1_PREFIX[hname] if hname else b'') + digest
        if k < len(t) + 11:
            return False
        em = b'\x00\x01' + b'\xff' * (k - len(t) - 3) + b'\x00' + t
        return m == int.from_bytes(em, 'big')
    hl = hashlib.new(hname).digest_size
    embits = n.bit_length() - 1
    emlen = (embits + 7) // 8
    if m.bit_length() > embits:
        return False
    em = m.to_bytes(emlen, 'big')
    sl = hl
    if emlen < hl + sl + 2 or em[-1] != 0xbc:
        return False
    masked, h = em[:emlen - hl - 1], em[emlen - hl - 1:-1]
    if masked[0] >> (8 - (8 * emlen - embits)) if (8 * emlen - embits) else 0:
        return False
    db = bytes(a ^ b for a, b in zip(masked, _mgf1(h, emlen - hl - 1, hname)))
    db = bytes([db[0] & (0xff >> (8 * emlen - embits))]) + db[1:]
    ps = emlen - hl - sl - 2
    if db[:ps] != b'\x00' * ps or db[ps] != 1:
        return False
    salt = db[-sl:]
    return hashlib.new(hname, b'\x00' * 8 + digest + salt).digest() == h


def ref_verify(pub, key_type, scheme_hash, pad, tbs_or_digest, sig, prehashed=True):
    """dispatch.  For DSA/ECDSA/RSA `tbs_or_digest` is the digest handed to the primitive
    (ECDSA/DSA: truncated inside); for EdDSA it is the message."""
    try:
        if key_type in ('Ed25519', 'Ed448'):
            return ref_eddsa_verify(pub, tbs_or_digest, sig)
        if key_type == 'ecdsa':
            return ref_ecdsa_verify(pub, tbs_or_digest, sig)
        if key_type == 'dsa':
            return ref_dsa_verify(pub, tbs_or_digest, sig)
        return ref_rsa_verify(pub, tbs_or_digest, sig, pad or 'pkcs1', scheme_hash)
    except Exception:   # noqa  a reference verifier that cannot even parse does not accept
        return False


# ---- algebraic edge signatures ----------------------------------------------------------------
EDGE_RS = ['r1-s0', 'r0-s1', 'r0-s0', 'r1-s1', 's=q', 'r=q', 's+q', 'r+q', 's=q-1', 'r=q-1', 's=q+1', 'neg-s', 'neg-r',
           'pad-r', 'pad-s', 'trailer', 'q-s']
EDGE_ED = ['S+L', 'S=0', 'R=identity', 'S=L', 'S=L-1']
EDGE_RSA = ['sig=0', 'sig=1', 'sig=n-1', 'sig=n', 'sig+n', 'short-front', 'extra-zero']


def edge_names(key_type):
    if key_type in ('dsa', 'ecdsa'):
        return EDGE_RS
    if key_type in ('Ed25519', 'Ed448'):
        return EDGE_ED
    return EDGE_RSA


def edge_signature(pub, key_type, honest_sig, name):
    """the honest signature turned into the named edge value (bytes)"""
    sig = bytes(honest_sig)
    if key_type in ('dsa', 'ecdsa'):
        q = int(pub.q) if key_type == 'dsa' else int(pub.public_key.curve.order)
        try:
            r, s = parse_der_rs(sig)
        except ValueError:
            r, s = 1, 1
        table = {'r1-s0': (1, 0), 'r0-s1': (0, 1), 'r0-s0': (0, 0), 'r1-s1': (1, 1), 's=q': (r, q), 'r=q': (q, s),
                 's+q': (r, s + q), 'r+q': (r + q, s), 's=q-1': (r, q - 1), 'r=q-1': (q - 1, s), 's=q+1': (r, q + 1),
                 'neg-s': (r, -s), 'neg-r': (-r, s), 'q-s': (r, q - s)}
        if name in table:
            return der_rs(*table[name])
        if name == 'pad-r':
            return der_rs(r, s, pad_r=1)
        if name == 'pad-s':
            return der_rs(r, s, pad_s=2)
        if name == 'trailer':
            return der_rs(r, s, trailer=b'\x00')
        raise ValueError(name)
    if key_type in ('Ed25519', 'Ed448'):
        half = len(sig) // 2
        L = ED_L[half]
        R, S = sig[:half], int.from_bytes(sig[half:], 'little')
        enc = lambda v: (v % (1 << (8 * half))).to_bytes(half, 'little')
        if name == 'S+L':
            return R + enc(S + L)
        if name == 'S=0':
            return R + enc(0)
        if name == 'S=L':
            return R + enc(L)
        if name == 'S=L-1':
            return R + enc(L - 1)
        if name == 'R=identity':
            return (b'\x01' + b'\x00' * (half - 1)) + enc(0)
        raise ValueError(name)
    n = int(pub.n)
    k = (n.bit_length() + 7) // 8
    s = int.from_bytes(sig, 'big')
    if name == 'sig=0':
        return (0).to_bytes(k, 'big')
    if name == 'sig=1':
        return (1).to_bytes(k, 'big')
    if name == 'sig=n-1':
        return (n - 1).to_bytes(k, 'big')
    if name == 'sig=n':
        return n.to_bytes(k, 'big')
    if name == 'sig+n':
        v = s + n
        return v.to_bytes(max(k, (v.bit_length() + 7) // 8), 'big')
    if name == 'short-front':
        return sig[1:]
    if name == 'extra-zero':
        return b'\x00' + sig
    raise ValueError(name)
