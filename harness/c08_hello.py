"""C08: correspondence between the crashlite models of the hello decision regions
(coq/Gen/ChChecks.v, regenerated from /repo on every run) and the running implementation.

For generated ClientHello messages (every extension absent / empty body / empty list /
well-formed / odd) the real server is driven over in-memory sockets; what the region did is
observed exactly: sys.settrace tells whether control reached the first statement after the
region (=> OK), otherwise the exception that ended handshakeServer is classified
(TLSLocalAlert d => Alert d, other TLSError => Raised, anything else => Crash kind).
The same bytes are parsed with the real parser, converted to a Gallina literal of the schema
(a schema mismatch is a broken tie) and the model's prediction is compared by vm_compute."""
import os
import sys

import vlib
import loop

sys.path.insert(0, os.path.join(vlib.ROOT, 'translator'))
import units_c08  # noqa: E402
from units_c08 import OBJ, SchemaMismatch, to_lit  # noqa: E402

KIND_CODES = {'AttributeError': 1, 'TypeError': 2, 'IndexError': 3, 'UnicodeDecodeError': 4, 'KeyError': 5,
              'ValueError': 6, 'AssertionError': 7, 'UnboundLocalError': 8}

PREAMBLE = '''
Definition kind_code (k : string) : Z :=
  if String.eqb k "AttributeError" then 1 else if String.eqb k "TypeError" then 2 else
  if String.eqb k "IndexError" then 3 else if String.eqb k "UnicodeDecodeError" then 4 else
  if String.eqb k "KeyError" then 5 else if String.eqb k "ValueError" then 6 else
  if String.eqb k "AssertionError" then 7 else if String.eqb k "UnboundLocalError" then 8 else 99.
Definition ocode (o : outcome unit) : Z :=
  match o with OK _ => 0 | Alert d => 1000 + d | Raised _ => 2000 | Crash k _ => 3000 + kind_code k end.
Definition CaseT := (ClientHello_r * Settings_r * bool * Z)%type.
Definition chk_ch (c : CaseT) : bool :=
  let '(ch, st, ivh, code) := c in ocode (ChChecks ch st (fun _ => ivh)) =? code.
'''


# ------------------------------------------------------------------------------------------
def gen_client_hello(rng):
    """A ClientHello as bytes (handshake message incl. 4-byte header) + a short class label."""
    from tlslite.messages import ClientHello
    from tlslite.extensions import (TLSExtension, SNIExtension, SupportedGroupsExtension, ECPointFormatsExtension,
                                    SignatureAlgorithmsExtension, ALPNExtension, SupportedVersionsExtension,
                                    PskKeyExchangeModesExtension, ClientKeyShareExtension, KeyShareEntry,
                                    PreSharedKeyExtension, PskIdentity)
    from tlslite.constants import ExtensionType as ET
    label = []

    def raw(t, data):
        return TLSExtension(extType=t).create(bytearray(data))

    # each slot deviates from a well-formed choice with probability p_dev (so that the deep checks,
    # which need all earlier ones to pass, are reached as often as the early ones)
    p_dev = rng.choice([0.0, 0.06, 0.06, 0.12, 0.12, 0.25, 1.0])

    def pick(name, options, good=None):
        if good is not None and rng.random() >= p_dev:
            i = options.index(rng.choice(good))
        else:
            i = rng.randrange(len(options))
        label.append('%s%d' % (name, i))
        return options[i]
    tls13 = rng.random() < 0.7
    cv = pick('cv', [(3, 3), (3, 3), (3, 3), (3, 1), (3, 0), (3, 4), (2, 0), (3, 9)], [(3, 3)])
    exts = []
    # supported_versions
    sv = pick('sv', ['absent', 'empty', 'emptylist', '13', '13+12', '12', 'junk'] if not tls13 else
              ['13', '13+12', '13', '13+12', 'empty', 'emptylist'], ['absent', '12'] if not tls13 else ['13', '13+12'])
    if sv == 'empty':
        exts.append(raw(ET.supported_versions, b''))
    elif sv == 'emptylist':
        exts.append(raw(ET.supported_versions, b'\x00'))
    elif sv == '13':
        exts.append(SupportedVersionsExtension().create([(3, 4)]))
    elif sv == '13+12':
        exts.append(SupportedVersionsExtension().create([(3, 4), (3, 3)]))
    elif sv == '12':
        exts.append(SupportedVersionsExtension().create([(3, 3), (3, 2)]))
    elif sv == 'junk':
        exts.append(SupportedVersionsExtension().create([(9, 9), (3, 4), (0, 0)]))
    # signature_algorithms
    sa = pick('sa', ['absent', 'empty', 'emptylist', 'ok', 'ok'], ['ok'])
    if sa == 'empty':
        exts.append(raw(ET.signature_algorithms, b''))
    elif sa == 'emptylist':
        exts.append(raw(ET.signature_algorithms, b'\x00\x00'))
    elif sa == 'ok':
        exts.append(SignatureAlgorithmsExtension().create([(4, 1), (8, 4), (4, 3)]))
    # alpn
    al = pick('al', ['absent', 'absent', 'emptylist', 'emptyname', 'ok'], ['absent', 'ok'])
    if al == 'emptylist':
        exts.append(raw(ET.alpn, b'\x00\x00'))
    elif al == 'emptyname':
        exts.append(raw(ET.alpn, b'\x00\x04\x00\x02h2'))
    elif al == 'ok':
        exts.append(ALPNExtension().create([bytearray(b'h2'), bytearray(b'http/1.1')]))
    # server_name
    sn = pick('sn', ['absent', 'absent', 'empty', 'emptylist', 'ok', 'two', 'emptyname', 'nonascii', 'baddns', 'othertype'],
              ['absent', 'ok'])
    if sn == 'empty':
        exts.append(raw(ET.server_name, b''))
    elif sn == 'emptylist':
        exts.append(raw(ET.server_name, b'\x00\x00'))
    elif sn == 'ok':
        exts.append(SNIExtension().create(bytearray(b'example.com')))
    elif sn == 'two':
        exts.append(SNIExtension().create(hostNames=[bytearray(b'a.example'), bytearray(b'b.example')]))
    elif sn == 'emptyname':
        exts.append(SNIExtension().create(hostNames=[bytearray(b'')]))
    elif sn == 'nonascii':
        exts.append(SNIExtension().create(bytearray(b'ex\xc3\xa4mple.com')))
    elif sn == 'baddns':
        exts.append(SNIExtension().create(bytearray(b'-bad..name-')))
    elif sn == 'othertype':
        exts.append(SNIExtension().create(serverNames=[SNIExtension.ServerName(7, bytearray(b'x'))]))
    # extended master secret
    em = pick('em', ['absent', 'ok', 'payload'], ['absent', 'ok'])
    if em != 'absent':
        exts.append(raw(ET.extended_master_secret, b'' if em == 'ok' else b'\x01'))
    # ec point formats
    ec = pick('ec', ['absent', 'empty', 'emptylist', 'ok', 'nouncompressed'], ['absent', 'ok'])
    if ec == 'empty':
        exts.append(raw(ET.ec_point_formats, b''))
    elif ec == 'emptylist':
        exts.append(raw(ET.ec_point_formats, b'\x00'))
    elif ec == 'ok':
        exts.append(ECPointFormatsExtension().create([0]))
    elif ec == 'nouncompressed':
        exts.append(ECPointFormatsExtension().create([1, 2]))
    # supported groups
    sg = pick('sg', ['absent', 'empty', 'emptylist', 'ok', 'ok', 'ok', 'forbidden', 'other'], ['ok'])
    groups = None
    if sg == 'empty':
        exts.append(raw(ET.supported_groups, b''))
    elif sg == 'emptylist':
        exts.append(raw(ET.supported_groups, b'\x00\x00'))
    elif sg == 'ok':
        groups = [29, 23, 24]
    elif sg == 'forbidden':
        groups = [29, 19, 23]
    elif sg == 'other':
        groups = [24, 25]
    if groups:
        exts.append(SupportedGroupsExtension().create(groups))
    # key_share
    ks = pick('ks', ['absent', 'empty', 'emptylist', 'ok', 'ok', 'ok', 'dup', 'unadvertised', 'order', 'two'], ['ok', 'two'])

    def share(g):
        return KeyShareEntry().create(g, bytearray(rng.randrange(1, 256) for _ in range(32 if g == 29 else 65)))
    if ks == 'empty':
        exts.append(raw(ET.key_share, b''))
    elif ks == 'emptylist':
        exts.append(raw(ET.key_share, b'\x00\x00'))
    elif ks == 'ok':
        exts.append(ClientKeyShareExtension().create([share(29)]))
    elif ks == 'dup':
        exts.append(ClientKeyShareExtension().create([share(29), share(29)]))
    elif ks == 'unadvertised':
        exts.append(ClientKeyShareExtension().create([share(30)]))
    elif ks == 'order':
        exts.append(ClientKeyShareExtension().create([share(23), share(29)]))
    elif ks == 'two':
        exts.append(ClientKeyShareExtension().create([share(29), share(23)]))
    # psk modes
    pm = pick('pm', ['absent', 'absent', 'empty', 'emptylist', 'dhe', 'ke', 'both'], ['dhe', 'both', 'ke'])
    if pm == 'empty':
        exts.append(raw(ET.psk_key_exchange_modes, b''))
    elif pm == 'emptylist':
        exts.append(raw(ET.psk_key_exchange_modes, b'\x00'))
    elif pm == 'dhe':
        exts.append(PskKeyExchangeModesExtension().create([1]))
    elif pm == 'ke':
        exts.append(PskKeyExchangeModesExtension().create([0]))
    elif pm == 'both':
        exts.append(PskKeyExchangeModesExtension().create([1, 0]))
    # post handshake auth, early data
    ph = pick('ph', ['absent', 'absent', 'ok', 'payload'], ['absent', 'ok'])
    if ph != 'absent':
        exts.append(raw(ET.post_handshake_auth, b'' if ph == 'ok' else b'\x00'))
    ed = pick('ed', ['absent', 'absent', 'absent', 'ok', 'payload'], ['absent', 'absent', 'ok'])
    if ed != 'absent':
        exts.append(raw(ET.early_data, b'' if ed == 'ok' else b'\x00\x00\x00\x01'))
    # unknown / duplicated extension
    if rng.random() < 0.15 * min(1.0, 4 * p_dev + 0.2):
        exts.append(raw(rng.choice([0xfafa, 0x7777, 35]), bytes(rng.randrange(256) for _ in range(rng.randrange(4)))))
    dup = False      # duplicated extension types are rejected by ClientHello.parse since /repo 6da5459 (mutation oracle covers them)
    if dup and exts:
        exts.append(rng.choice(exts))
        label.append('dup')
    # pre_shared_key (normally last)
    pk = pick('pk', ['absent', 'absent', 'absent', 'empty', 'noids', 'nobinders', 'mismatch', 'emptyid', 'emptybinder', 'ok',
                     'ok', 'notlast'], ['absent', 'ok'])
    if pk != 'absent':
        ident = PskIdentity().create(bytearray(b'ticket-identity-0'), 1234)
        eident = PskIdentity().create(bytearray(b''), 0)
        binder = bytearray(32)
        if pk == 'empty':
            e = raw(ET.pre_shared_key, b'')
        elif pk == 'noids':
            e = PreSharedKeyExtension().create([], [binder])
        elif pk == 'nobinders':
            e = PreSharedKeyExtension().create([ident], [])
        elif pk == 'mismatch':
            e = PreSharedKeyExtension().create([ident, ident], [binder])
        elif pk == 'emptyid':
            e = PreSharedKeyExtension().create([eident], [binder])
        elif pk == 'emptybinder':
            e = PreSharedKeyExtension().create([ident], [bytearray(0)])
        else:
            e = PreSharedKeyExtension().create([ident], [binder])
        if pk == 'notlast' and exts:
            exts.insert(rng.randrange(len(exts)), e)
        else:
            exts.append(e)
    suites = pick('cs', [[0x1301, 0x1302, 0xc02f, 0x009e, 0x002f, 0x00ff], [0x1301, 0xc02f, 0x002f], [], [0x002f, 0x5600],
                         [0xc02f, 0x009e, 0x002f]], [[0x1301, 0x1302, 0xc02f, 0x009e, 0x002f, 0x00ff], [0x1301, 0xc02f, 0x002f]])
    noext = rng.random() < 0.04 * min(1.0, 4 * p_dev + 0.1)
    ch = ClientHello().create(cv, bytearray(rng.randrange(256) for _ in range(32)),
                              bytearray(rng.choice([0, 0, 32])), suites,
                              extensions=None if noext else exts)
    comp = pick('cm', [[0], [0], [0], [], [1], [1, 0]], [[0]])
    ch.compression_methods = comp
    return bytes(ch.write()), '-'.join(label)


def server_settings(rng):
    minv = rng.choice([(3, 0), (3, 1), (3, 3), (3, 1)])
    maxv = rng.choice([(3, 4), (3, 4), (3, 3), (3, 4)])
    if maxv < minv:
        maxv = minv
    return loop.settings(minVersion=minv, maxVersion=maxv)


def region_start_line(unit):
    import ast
    path = os.path.join(vlib.REPO, 'tlslite/tlsconnection.py')
    with open(path) as f:
        tree = ast.parse(f.read())
    for n in ast.walk(tree):
        if isinstance(n, ast.FunctionDef) and n.name == unit.func:
            for s in n.body:
                if ast.unparse(s).startswith(unit.start):
                    return s.lineno
    raise RuntimeError('start marker not found')


def region_end_line(unit):
    """first line after the region (the end marker statement)"""
    import ast
    path = os.path.join(vlib.REPO, 'tlslite/tlsconnection.py')
    with open(path) as f:
        tree = ast.parse(f.read())
    for n in ast.walk(tree):
        if isinstance(n, ast.FunctionDef) and n.name == unit.func:
            for s in n.body:
                if ast.unparse(s).startswith(unit.end):
                    return n.name, s.lineno
    raise RuntimeError('end marker not found')


def observe_server(ch_bytes, settings, func_name, end_line):
    """Run the real server on one ClientHello; returns the integer outcome code of the region."""
    from tlslite.messages import RecordHeader3
    pair = loop.Pair()
    cert, key = loop.creds('rsa')
    rec = RecordHeader3().create((3, 1), 22, len(ch_bytes)).write() + ch_bytes
    pair.ssock.inbuf += rec
    reached = [False]

    def tracer(frame, event, arg):
        if frame.f_code.co_name != func_name:
            return None

        def local(frame, event, arg):
            if event == 'line' and frame.f_lineno >= end_line:     # any statement after the region
                reached[0] = True
            return local
        return local
    gen = pair.server.handshakeServerAsync(certChain=cert, privateKey=key, settings=settings)
    sys.settrace(tracer)
    try:
        res = loop.run_gen(gen, max_steps=2000)
    finally:
        sys.settrace(None)
    cls = loop.classify(res)
    exc = res[1] if res[0] == 'exc' else None
    if reached[0]:
        return 0, cls, exc
    if cls[0] == 'LocalAlert':
        return 1000 + cls[1], cls, exc
    if cls[0] in ('TLSError', 'AuthError'):
        return 2000, cls, exc
    if cls[0] == 'Other':
        return 3000 + KIND_CODES.get(cls[1], 99), cls, exc
    return -1, cls, exc     # Deadlock (waiting for more data) etc.: cannot happen inside the region


def run_server_exc(ch_bytes, settings):
    """handshakeServer on one ClientHello; the exception that ended it (None if it is still waiting)."""
    from tlslite.messages import RecordHeader3
    pair = loop.Pair()
    cert, key = loop.creds('rsa')
    pair.ssock.inbuf += RecordHeader3().create((3, 1), 22, len(ch_bytes)).write() + ch_bytes
    res = loop.run_gen(pair.server.handshakeServerAsync(certChain=cert, privateKey=key, settings=settings), max_steps=2000)
    if res[0] == 'exc' and not isinstance(res[1], loop.Deadlock):
        return res[1]
    return None


def settings_lit(s, schema):
    s2 = s.validate()
    return to_lit(s2, OBJ('Settings'), schema, 'settings')


_CH_STATE = {}


def _ch_state():
    if not _CH_STATE:
        unit = units_c08.ch_unit()
        _CH_STATE['schema'] = unit.schema_thunk()
        _CH_STATE['fn'], _CH_STATE['end'] = region_end_line(unit)
        loop.DetRandom(7).install()
    return _CH_STATE


def ch_case(seed):
    """one generated ClientHello: live observation + literal (runs in a worker process)"""
    import random
    import c08_fuzz
    from tlslite.messages import ClientHello
    from tlslite.utils.codec import Parser
    from tlslite.utils.dns_utils import is_valid_hostname
    S = _ch_state()
    rng = random.Random(seed)
    ch_bytes, label = gen_client_hello(rng)
    st = server_settings(rng)
    out = dict(label=label, hex=ch_bytes.hex(), vers=(st.minVersion, st.maxVersion), lit=None, tie=None, crash=None)
    try:
        code, cls, exc = c08_fuzz.with_watchdog(observe_server, ch_bytes, st, S['fn'], S['end'])
    except c08_fuzz.HangTimeout as e:
        sys.settrace(None)
        fn, line = c08_fuzz.hang_frame(e)
        out['crash'] = ('hang:%s:%s' % (fn, c08_fuzz._norm(line)),
                        'makes no progress during %d CPU-seconds (spinning in %s: `%s`)' % (c08_fuzz.HANG_SECONDS, fn, line))
        out['kind'] = 'hang'
        return out
    out['code'], out['cls'] = code, cls
    try:
        ch = ClientHello().parse(Parser(bytearray(ch_bytes[1:])))
    except Exception as e:  # noqa
        out['tie'] = 'generated ClientHello does not parse: %r' % (e,)
        return out
    ivh = False
    try:
        sni = ch.getExtension(0)
        if sni is not None and sni.hostNames:
            ivh = bool(is_valid_hostname(sni.hostNames[0].decode('ascii', 'strict')))
    except Exception:  # noqa
        ivh = False
    try:
        out['lit'] = '(%s, %s, %s, %s)' % (to_lit(ch, OBJ('ClientHello'), S['schema'], 'clientHello'),
                                           settings_lit(st, S['schema']), vlib.boollit(ivh), vlib.zlit(code))
    except SchemaMismatch as e:
        out['tie'] = 'schema mismatch (parser produced a value outside the schema): %s' % e
        return out
    out['kind'] = 'ok' if code == 0 else 'alert%d' % (code - 1000) if 1000 <= code < 2000 else 'raised' if code == 2000 else \
        'crash:%s' % cls[1] if code >= 3000 else 'other'
    if code >= 3000:
        fn, line = c08_fuzz.innermost_tlslite_frame(exc)
        out['crash'] = (c08_fuzz.crash_key(exc),
                        'raises %s: %s (in %s: `%s`)' % (type(exc).__name__, str(exc)[:100], fn, line))
    elif code == -1:
        out['tie'] = 'server neither left the region nor failed on a complete ClientHello (%s): %r' % (label, cls)
    return out


def run_stage(ctx, quick, model_ok, pool=None):
    """Returns (tie_broken or None, list of crash observations)."""
    n = 300 if quick else 6000
    seeds = [ctx.rng.randrange(1 << 62) for _ in range(n)]
    outs = pool.map(ch_case, seeds, chunksize=8) if pool is not None else [ch_case(x) for x in seeds]
    lits, metas, crashes = [], [], []
    tie = None
    for i, o in enumerate(outs):
        tie = tie or o['tie']
        if o['crash']:
            crashes.append((o['label'], o.get('code'), o.get('cls'), o['hex'], o['vers'], o['crash'][0], o['crash'][1]))
        if o['lit'] is None:
            continue
        lits.append(o['lit'])
        metas.append((o['label'], o['code'], o['cls'], o['hex'], o['vers']))
        ctx.count('hello-region-live', 1, [(o['kind'], o['label'].split('-')[0], o['label'].split('-')[1])],
                  sample={'label': o['label'], 'outcome': o['kind']} if i % 53 == 0 else None)
    if model_ok:
        bad, errs = vlib.coq_bad_indices('C08h', ['Base.C08_Lib', 'Gen.ChChecks'], 'CaseT', 'chk_ch', lits,
                                         shard=max(8, (len(lits) + 15) // 16), preamble=PREAMBLE)
        ctx.count('hello-model-vs-impl(vm_compute)', len(lits), [('agree', len(lits) - len(bad))])
        for e in errs:
            tie = tie or 'case evaluation failed: ' + e[:400]
        for i in bad[:5]:
            ctx.log('hello model/impl disagreement: %s live=%s' % (metas[i][0], metas[i][1:3]))
            tie = tie or 'crash model disagrees with the implementation on ClientHello %s (live %s) bytes=%s' % (
                metas[i][0], metas[i][2], metas[i][3][:200])
    return tie, crashes


# ==========================================================================================
# ServerHello region (client side)
PREAMBLE_SH = '''
Definition kind_code (k : string) : Z :=
  if String.eqb k "AttributeError" then 1 else if String.eqb k "TypeError" then 2 else
  if String.eqb k "IndexError" then 3 else if String.eqb k "UnicodeDecodeError" then 4 else
  if String.eqb k "KeyError" then 5 else if String.eqb k "ValueError" then 6 else
  if String.eqb k "AssertionError" then 7 else if String.eqb k "UnboundLocalError" then 8 else 99.
Definition ocode (o : outcome unit) : Z :=
  match o with OK _ => 0 | Alert d => 1000 + d | Raised _ => 2000 | Crash k _ => 3000 + kind_code k end.
Definition CaseS := (ServerHello_r * ClientHello_r * Settings_r * bool * list Z * Z)%type.
Definition chk_sh (c : CaseS) : bool :=
  let '(sh, ch, st, dempty, filtered, code) := c in ocode (ShChecks sh ch st None dempty (fun _ _ _ => filtered)) =? code.
'''


def gen_server_hello(rng, client_suites, client_sid, offered_alpn=False):
    from tlslite.messages import ServerHello
    from tlslite.extensions import (TLSExtension, ALPNExtension, SrvSupportedVersionsExtension, HeartbeatExtension,
                                    RecordSizeLimitExtension, NPNExtension)
    from tlslite.constants import ExtensionType as ET
    label = []

    def raw(t, data):
        return TLSExtension(extType=t, server=True).create(bytearray(data))

    p_dev = rng.choice([0.0, 0.06, 0.06, 0.12, 0.12, 0.25, 1.0])

    def pick(name, options, good=None):
        if good is not None and rng.random() >= p_dev:
            i = options.index(rng.choice(good))
        else:
            i = rng.randrange(len(options))
        label.append('%s%d' % (name, i))
        return options[i]
    sver = pick('v', [(3, 3), (3, 3), (3, 3), (3, 2), (3, 1), (3, 0), (3, 4), (2, 0)], [(3, 3)])
    exts = []
    sv = pick('sv', ['absent', 'absent', 'absent', '13', '12', 'junk'], ['absent'])
    if sv != 'absent':
        exts.append(SrvSupportedVersionsExtension().create({'13': (3, 4), '12': (3, 3), 'junk': (9, 9)}[sv]))
    if pick('ems', ['yes', 'yes', 'no', 'payload'], ['yes']) != 'no':
        exts.append(raw(ET.extended_master_secret, b'' if label[-1] != 'ems3' else b'\x00'))
    al = pick('al', ['absent', 'absent', 'empty', 'one', 'two', 'unoffered', 'emptyname'], ['absent', 'one'] if offered_alpn else ['absent'])
    if al == 'empty':
        exts.append(raw(ET.alpn, b'\x00\x00'))
    elif al == 'one':
        exts.append(ALPNExtension().create([bytearray(b'http/1.1')]))
    elif al == 'two':
        exts.append(ALPNExtension().create([bytearray(b'http/1.1'), bytearray(b'h2')]))
    elif al == 'unoffered':
        exts.append(ALPNExtension().create([bytearray(b'spdy/9')]))
    elif al == 'emptyname':
        exts.append(raw(ET.alpn, b'\x00\x01\x00'))
    hb = pick('hb', ['absent', 'absent', '1', '2', '3', '0'], ['absent', '1', '2'])
    if hb != 'absent':
        exts.append(HeartbeatExtension().create(int(hb)))
    rs = pick('rs', ['absent', 'absent', 'empty', '63', '64', '16384', '16385', '0'], ['absent', '64', '16384'])
    if rs == 'empty':
        exts.append(raw(ET.record_size_limit, b''))
    elif rs != 'absent':
        exts.append(RecordSizeLimitExtension().create(int(rs)))
    ct = pick('ct', ['absent', 'absent', 'absent', '0', '1', '7'], ['absent', '0'])
    if ct != 'absent':
        exts.append(raw(ET.cert_type, bytes([int(ct)])))
    np_ = pick('np', ['absent', 'absent', 'absent', 'empty', 'one'], ['absent'])
    if np_ == 'empty':
        exts.append(raw(ET.supports_npn, b''))
    elif np_ == 'one':
        exts.append(NPNExtension().create([bytearray(b'http/1.1')]))
    if rng.random() < 0.1 * min(1.0, 4 * p_dev + 0.2):
        exts.append(raw(rng.choice([0xfafa, 0x7777]), bytes(rng.randrange(4))))
    # (duplicated extension types are rejected by ServerHello.parse since /repo 6da5459)
    rng.shuffle(exts)
    old_suites = [x for x in client_suites if (x >> 8) != 0x13 and x not in (0x00ff, 0x5600)] or [0x2f]
    suite = pick('cs', [old_suites[0], rng.choice(old_suites), rng.choice(client_suites) if client_suites else 0x2f,
                        0x1301, 0xc02f, 0x002f, 0x0000, 0xfefe], [old_suites[0]])
    sid = pick('sid', [bytes(client_sid), bytes(client_sid), b'', bytes(32)], [bytes(client_sid)])
    sh = ServerHello().create(sver, bytearray(rng.randrange(1, 256) for _ in range(32)), bytearray(sid), suite,
                              extensions=None if rng.random() < 0.05 * min(1.0, 4 * p_dev + 0.1) else exts)
    sh.compression_method = pick('cm', [0, 0, 0, 0, 1], [0])
    return bytes(sh.write()), '-'.join(label)


def client_variants(rng):
    kw = {}
    st = {}
    v = rng.randrange(6)
    if v == 1:
        st['use_heartbeat_extension'] = False
    elif v == 2:
        st['requireExtendedMasterSecret'] = True
    elif v == 3:
        kw['alpn'] = [b'http/1.1', b'h2']
    elif v == 4:
        st['maxVersion'] = (3, 3)
        kw['alpn'] = [b'http/1.1']
    elif v == 5:
        st['minVersion'] = (3, 3)
        st['record_size_limit'] = 4096
    return kw, st, v


def observe_client(gen_sh, rng, func_name, end_line, start_line=None):
    """Run a real client up to the ServerHello, inject a generated ServerHello; returns
    (code, cls, exc, label, sh_bytes, captured clientHello/settings objects)."""
    from tlslite.messages import RecordHeader3
    pair = loop.Pair()
    kw, st, v = client_variants(rng)
    settings = loop.settings(**st)
    g = pair.client.handshakeClientCert(async_=True, settings=settings, **kw)
    captured = {}
    reached = [False]

    def tracer(frame, event, arg):
        if frame.f_code.co_name != func_name:
            return None
        captured['clientHello'] = frame.f_locals.get('clientHello')
        captured['settings'] = frame.f_locals.get('settings')

        def local(frame, event, arg):
            if event == 'line' and frame.f_lineno >= end_line:     # any statement after the region
                reached[0] = True
            if event == 'line' and frame.f_lineno == start_line:
                captured['entered'] = True
                try:      # the endpoint's own state the region reads (observation only)
                    captured['defrag_empty'] = bool(frame.f_locals['self']._defragmenter.is_empty())
                except Exception:  # noqa
                    captured['defrag_empty'] = True
            return local
        return local
    sys.settrace(tracer)
    try:
        # first run: the client sends its hello and waits
        res = loop.run_gen(g, max_steps=200)
        if 'clientHello' not in captured or res[0] != 'exc' or not isinstance(res[1], loop.Deadlock):
            return None
    finally:
        sys.settrace(None)
    ch = captured['clientHello']
    sh_bytes, label = gen_sh(rng, list(ch.cipher_suites), ch.session_id, ch.getExtension(16) is not None)
    pair.csock.inbuf += RecordHeader3().create((3, 3), 22, len(sh_bytes)).write() + sh_bytes
    # the generator g is exhausted by the Deadlock pseudo-exception? no: run_gen only stops iterating; continue it
    sys.settrace(tracer)
    try:
        res = loop.run_gen(g, max_steps=3000)
    finally:
        sys.settrace(None)
    cls = loop.classify(res)
    exc = res[1] if res[0] == 'exc' else None
    if reached[0]:
        code = 0
    elif cls[0] == 'LocalAlert':
        code = 1000 + cls[1]
    elif cls[0] in ('TLSError', 'AuthError'):
        code = 2000
    elif cls[0] == 'Other':
        code = 3000 + KIND_CODES.get(cls[1], 99)
    else:
        code = -1
    return code, cls, exc, 'c%d-%s' % (v, label), sh_bytes, captured


_SH_STATE = {}


def _sh_state():
    if not _SH_STATE:
        unit = units_c08.sh_unit()
        _SH_STATE['schema'] = unit.schema_thunk()
        _SH_STATE['fn'], _SH_STATE['end'] = region_end_line(unit)
        _SH_STATE['start'] = region_start_line(unit)
    return _SH_STATE


def sh_case(seed):
    import random
    import c08_fuzz
    from tlslite.messages import ServerHello
    from tlslite.utils.codec import Parser
    from tlslite.constants import CipherSuite, TLS_1_3_HRR
    S = _sh_state()
    rng = random.Random(seed)
    out = dict(label='?', hex='', lit=None, tie=None, crash=None, kind=None, pre=False, seed=seed)
    try:
        r = c08_fuzz.with_watchdog(observe_client, gen_server_hello, rng, S['fn'], S['end'], S['start'])
    except c08_fuzz.HangTimeout as e:
        sys.settrace(None)
        fn, line = c08_fuzz.hang_frame(e)
        out['crash'] = ('hang:%s:%s' % (fn, c08_fuzz._norm(line)),
                        'client makes no progress during %d CPU-seconds (spinning in %s: `%s`)' % (c08_fuzz.HANG_SECONDS, fn, line))
        return out
    if r is None:
        out['tie'] = 'client did not reach _clientGetServerHello in the harness'
        return out
    code, cls, exc, label, sh_bytes, cap = r
    out.update(label=label, hex=sh_bytes.hex(), code=code, cls=cls)
    try:
        sh = ServerHello().parse(Parser(bytearray(sh_bytes[1:])))
    except Exception as e:  # noqa
        out['tie'] = 'generated ServerHello does not parse: %r' % (e,)
        return out
    if sh.random == TLS_1_3_HRR:
        return out

    def crash_info():
        fn, line = c08_fuzz.innermost_tlslite_frame(exc)
        return (c08_fuzz.crash_key(exc),
                'raises %s: %s (in %s: `%s`)' % (type(exc).__name__, str(exc)[:100], fn, line))
    if not cap.get('entered'):
        # the call failed before the region was entered (e.g. duplicated supported_versions at the HRR test)
        out['pre'] = True
        if cls[0] == 'Other':
            out['crash'] = crash_info()
        return out
    ch, st = cap['clientHello'], cap['settings']
    rv = sh.server_version
    try:
        if rv >= (3, 3):
            e43 = sh.getExtension(43)
            if e43:
                rv = e43.version
        filtered = CipherSuite.filterForVersion(ch.cipher_suites, minVersion=rv, maxVersion=rv)
    except Exception:  # noqa
        filtered = []
    try:
        out['lit'] = '(%s, %s, %s, %s, %s, %s)' % (to_lit(sh, OBJ('ServerHello'), S['schema'], 'serverHello'),
                                               to_lit(ch, OBJ('ClientHello'), S['schema'], 'clientHello'),
                                               to_lit(st, OBJ('Settings'), S['schema'], 'settings'),
                                               vlib.boollit(cap.get('defrag_empty', True)),
                                               vlib.listlit(filtered, vlib.zlit), vlib.zlit(code))
    except SchemaMismatch as e:
        out['tie'] = 'schema mismatch (ServerHello region): %s' % e
        return out
    out['kind'] = 'ok' if code == 0 else 'alert%d' % (code - 1000) if 1000 <= code < 2000 else 'raised' if code == 2000 else \
        'crash:%s' % cls[1] if code >= 3000 else 'other'
    if code >= 3000:
        out['crash'] = crash_info()
    elif code == -1:
        out['tie'] = 'client neither left the ServerHello region nor failed (%s): %r' % (label, cls)
    return out


def run_stage_sh(ctx, quick, model_ok, pool=None):
    n = 200 if quick else 5000
    seeds = [ctx.rng.randrange(1 << 62) for _ in range(n)]
    outs = pool.map(sh_case, seeds, chunksize=8) if pool is not None else [sh_case(x) for x in seeds]
    lits, metas, crashes = [], [], []
    tie = None
    for o in outs:
        tie = tie or o['tie']
        if o['crash']:
            crashes.append((o['label'], o.get('code'), o.get('cls'), o['hex'], o['seed'], o['crash'][0], o['crash'][1]))
        if o['pre']:
            ctx.count('serverhello-pre-region', 1, [tuple(o['cls'][:2])])
        if o['lit'] is None:
            continue
        lits.append(o['lit'])
        metas.append((o['label'], o['code'], o['cls'], o['hex']))
        ctx.count('serverhello-region-live', 1, [(o['kind'],) + tuple(o['label'].split('-')[:3])])
    if model_ok and lits:
        bad, errs = vlib.coq_bad_indices('C08s', ['Base.C08_Lib', 'Gen.ShChecks'], 'CaseS', 'chk_sh', lits,
                                         shard=max(8, (len(lits) + 15) // 16), preamble=PREAMBLE_SH)
        ctx.count('serverhello-model-vs-impl(vm_compute)', len(lits), [('agree', len(lits) - len(bad))])
        for e in errs:
            tie = tie or 'case evaluation failed: ' + e[:400]
        for i in bad[:5]:
            ctx.log('ServerHello model/impl disagreement: %s live=%s' % (metas[i][0], metas[i][1:3]))
            tie = tie or 'crash model disagrees with the implementation on ServerHello %s (live %s) bytes=%s' % (
                metas[i][0], metas[i][2], metas[i][3][:200])
    return tie, crashes


# ==========================================================================================
# Second ClientHello after a HelloRetryRequest (server side, nested region HrrChChecks)
PREAMBLE_HRR = '''
Definition kind_code (k : string) : Z :=
  if String.eqb k "AttributeError" then 1 else if String.eqb k "TypeError" then 2 else
  if String.eqb k "IndexError" then 3 else if String.eqb k "UnicodeDecodeError" then 4 else
  if String.eqb k "KeyError" then 5 else if String.eqb k "ValueError" then 6 else
  if String.eqb k "AssertionError" then 7 else if String.eqb k "UnboundLocalError" then 8 else 99.
Definition ocode (o : outcome unit) : Z :=
  match o with OK _ => 0 | Alert d => 1000 + d | Raised _ => 2000 | Crash k _ => 3000 + kind_code k end.
Definition CaseH := (ClientHello_r * Z * Z)%type.
Definition chk_hrr (c : CaseH) : bool :=
  let '(ch, group, code) := c in ocode (HrrChChecks ch group) =? code.
'''
_HRR_STATE = {}


def _hrr_state():
    if not _HRR_STATE:
        unit = units_c08.hrr_ch_unit()
        _HRR_STATE['schema'] = unit.schema_thunk()
        unit.translate()
        _HRR_STATE['fn'] = unit.func
        _HRR_STATE['start'] = unit.last.lines[0]
        _HRR_STATE['end'] = unit.last.lines[1] + 1       # refined below: the end marker statement
        import ast
        with open(os.path.join(vlib.REPO, 'tlslite/tlsconnection.py')) as f:
            src = f.read()
        for n in ast.walk(ast.parse(src)):
            if isinstance(n, ast.stmt) and ast.unparse(n).startswith(unit.end) and n.lineno > _HRR_STATE['start']:
                _HRR_STATE['end'] = n.lineno
                break
    return _HRR_STATE


def hello_pair(rng):
    """(first ClientHello that makes a secp256r1-only server send a HelloRetryRequest,
        second ClientHello with a generated key_share extension, label)"""
    from tlslite.messages import ClientHello
    from tlslite.extensions import (TLSExtension, SupportedVersionsExtension, SupportedGroupsExtension,
                                    SignatureAlgorithmsExtension, ClientKeyShareExtension, KeyShareEntry)
    from tlslite.constants import ExtensionType as ET

    def share(g, n):
        return KeyShareEntry().create(g, bytearray(rng.randrange(1, 256) for _ in range(n)))
    common = [SupportedVersionsExtension().create([(3, 4)]), SupportedGroupsExtension().create([29, 23]),
              SignatureAlgorithmsExtension().create([(8, 4), (4, 1), (8, 9)])]
    rnd = bytearray(rng.randrange(256) for _ in range(32))
    sid = bytearray(rng.randrange(256) for _ in range(32))

    def hello(exts):
        return bytes(ClientHello().create((3, 3), rnd, sid, [0x1301, 0x1302], extensions=exts).write())
    ch1 = hello(common + [ClientKeyShareExtension().create([share(29, 32)])])
    opts = ['absent', 'empty', 'emptyvec', 'ok', 'wrong-group', 'two', 'two-wrong', 'ok']
    k = opts[rng.randrange(len(opts))]
    if k == 'absent':
        ks = []
    elif k == 'empty':
        ks = [TLSExtension(extType=ET.key_share).create(bytearray(0))]
    elif k == 'emptyvec':
        ks = [TLSExtension(extType=ET.key_share).create(bytearray(b'\x00\x00'))]
    elif k == 'ok':
        ks = [ClientKeyShareExtension().create([share(23, 65)])]
    elif k == 'wrong-group':
        ks = [ClientKeyShareExtension().create([share(29, 32)])]
    elif k == 'two':
        ks = [ClientKeyShareExtension().create([share(23, 65), share(29, 32)])]
    else:
        ks = [ClientKeyShareExtension().create([share(29, 32), share(24, 97)])]
    extra = [TLSExtension(extType=0x7777).create(bytearray(rng.randrange(3)))] if rng.random() < 0.3 else []
    pos = rng.randrange(len(common) + 1)
    ch2 = hello(common[:pos] + ks + common[pos:] + extra)
    return ch1, ch2, 'ks-' + k


def hrr_case(seed):
    import random
    import c08_fuzz
    from tlslite.messages import ClientHello, RecordHeader3
    from tlslite.utils.codec import Parser
    S = _hrr_state()
    rng = random.Random(seed)
    ch1, ch2, label = hello_pair(rng)
    out = dict(label=label, hex=ch2.hex(), hex1=ch1.hex(), lit=None, tie=None, crash=None, kind=None, seed=seed)
    pair = loop.Pair()
    cert, key = loop.creds('rsa')
    st = loop.settings(eccCurves=['secp256r1'], keyShares=['secp256r1'])
    gen = pair.server.handshakeServerAsync(certChain=cert, privateKey=key, settings=st)
    cap = {}
    reached = [False]

    def tracer(frame, event, arg):
        if frame.f_code.co_name != S['fn']:
            return None

        def local(frame, event, arg):
            if event == 'line' and frame.f_lineno == S['start']:
                cap['entered'] = True
                cap['group'] = frame.f_locals.get('selected_group')
            if event == 'line' and frame.f_lineno >= S['end'] and cap.get('entered'):
                reached[0] = True
            return local
        return local

    def run():
        pair.ssock.inbuf += RecordHeader3().create((3, 3), 22, len(ch1)).write() + ch1
        sys.settrace(tracer)
        try:
            r1 = loop.run_gen(gen, max_steps=400)
            if not isinstance(r1[1] if r1[0] == 'exc' else None, loop.Deadlock):
                return None, r1
            pair.ssock.inbuf += RecordHeader3().create((3, 3), 22, len(ch2)).write() + ch2
            return loop.run_gen(gen, max_steps=3000), r1
        finally:
            sys.settrace(None)
    try:
        res, r1 = c08_fuzz.with_watchdog(run)
    except c08_fuzz.HangTimeout as e:
        sys.settrace(None)
        fn, line = c08_fuzz.hang_frame(e)
        out['crash'] = ('hang:%s:%s' % (fn, c08_fuzz._norm(line)), 'does not return (spinning in %s: `%s`)' % (fn, line))
        return out
    if res is None:
        out['tie'] = 'the first ClientHello did not make the server wait for a second one: %r' % (loop.classify(r1),)
        return out
    cls = loop.classify(res)
    exc = res[1] if res[0] == 'exc' else None
    out['cls'] = cls
    if not cap.get('entered'):
        out['tie'] = 'server did not reach the second-ClientHello checks (%s): %r' % (label, cls)
        return out
    if reached[0]:
        code = 0
    elif cls[0] == 'LocalAlert':
        code = 1000 + cls[1]
    elif cls[0] in ('TLSError', 'AuthError'):
        code = 2000
    elif cls[0] == 'Other':
        code = 3000 + KIND_CODES.get(cls[1], 99)
    else:
        code = -1
    out['code'] = code
    try:
        ch = ClientHello().parse(Parser(bytearray(ch2[1:])))
        out['lit'] = '(%s, %s, %s)' % (to_lit(ch, OBJ('ClientHello'), S['schema'], 'clientHello'), vlib.zlit(cap['group']),
                                       vlib.zlit(code))
    except SchemaMismatch as e:
        out['tie'] = 'schema mismatch (second ClientHello): %s' % e
        return out
    except Exception as e:  # noqa
        out['tie'] = 'generated second ClientHello does not parse: %r' % (e,)
        return out
    out['kind'] = 'ok' if code == 0 else 'alert%d' % (code - 1000) if 1000 <= code < 2000 else 'raised' if code == 2000 else \
        'crash:%s' % cls[1] if code >= 3000 else 'other'
    if code >= 3000:
        fn, line = c08_fuzz.innermost_tlslite_frame(exc)
        out['crash'] = (c08_fuzz.crash_key(exc),
                        'raises %s: %s (in %s: `%s`)' % (type(exc).__name__, str(exc)[:100], fn, line))
    elif code == -1:
        out['tie'] = 'server neither left the second-ClientHello checks nor failed (%s): %r' % (label, cls)
    return out


def run_stage_hrr(ctx, quick, model_ok, pool=None):
    n = 64 if quick else 1500
    seeds = [ctx.rng.randrange(1 << 62) for _ in range(n)]
    outs = pool.map(hrr_case, seeds, chunksize=4) if pool is not None else [hrr_case(x) for x in seeds]
    lits, metas, crashes = [], [], []
    tie = None
    for o in outs:
        tie = tie or o['tie']
        if o['crash']:
            crashes.append((o['label'], o.get('code'), o.get('cls'), o['hex'], o['hex1'], o['crash'][0], o['crash'][1]))
        if o['lit'] is None:
            continue
        lits.append(o['lit'])
        metas.append((o['label'], o['code'], o['cls'], o['hex']))
        ctx.count('hrr-second-hello-region-live', 1, [(o['kind'], o['label'])])
    if model_ok and lits:
        bad, errs = vlib.coq_bad_indices('C08r', ['Base.C08_Lib', 'Gen.HrrChChecks'], 'CaseH', 'chk_hrr', lits,
                                         shard=max(8, (len(lits) + 15) // 16), preamble=PREAMBLE_HRR)
        ctx.count('hrr-second-hello-model-vs-impl(vm_compute)', len(lits), [('agree', len(lits) - len(bad))])
        for e in errs:
            tie = tie or 'case evaluation failed: ' + e[:400]
        for i in bad[:5]:
            ctx.log('second-ClientHello model/impl disagreement: %s live=%s' % (metas[i][0], metas[i][1:3]))
            tie = tie or 'crash model disagrees with the implementation on the second ClientHello %s (live %s) bytes=%s' % (
                metas[i][0], metas[i][2], metas[i][3][:200])
    return tie, crashes


# ==========================================================================================
# Client: handling of a HelloRetryRequest (nested region HrrShChecks)
PREAMBLE_HRRSH = '''
Definition kind_code (k : string) : Z :=
  if String.eqb k "AttributeError" then 1 else if String.eqb k "TypeError" then 2 else
  if String.eqb k "IndexError" then 3 else if String.eqb k "UnicodeDecodeError" then 4 else
  if String.eqb k "KeyError" then 5 else if String.eqb k "ValueError" then 6 else
  if String.eqb k "AssertionError" then 7 else if String.eqb k "UnboundLocalError" then 8 else 99.
Definition ocode (o : outcome unit) : Z :=
  match o with OK _ => 0 | Alert d => 1000 + d | Raised _ => 2000 | Crash k _ => 3000 + kind_code k end.
Definition CaseR := (ClientHello_r * ServerHello_r * Z)%type.
Definition gen0 (g : Z) (_ : ver) : KeyShareEntry_r := {| KeyShareEntry_group := g; KeyShareEntry_key_exchange := [] |}.
Definition chk_hrrsh (c : CaseR) : bool :=
  let '(ch, hrr, code) := c in ocode (HrrShChecks ch hrr gen0) =? code.
'''
_HRRSH_STATE = {}


def _hrrsh_state():
    if not _HRRSH_STATE:
        import ast
        unit = units_c08.hrr_sh_unit()
        _HRRSH_STATE['schema'] = unit.schema_thunk()
        unit.translate()
        _HRRSH_STATE['fn'] = unit.func
        _HRRSH_STATE['start'] = unit.last.lines[0]
        with open(os.path.join(vlib.REPO, 'tlslite/tlsconnection.py')) as f:
            src = f.read()
        for n in ast.walk(ast.parse(src)):
            if isinstance(n, ast.stmt) and ast.unparse(n).startswith(unit.end) and n.lineno > _HRRSH_STATE['start']:
                _HRRSH_STATE['end'] = n.lineno
                break
    return _HRRSH_STATE


def gen_hrr(rng, ch):
    """A HelloRetryRequest for the real client's ClientHello `ch` (object)."""
    from tlslite.messages import ServerHello
    from tlslite.extensions import (TLSExtension, SrvSupportedVersionsExtension, HRRKeyShareExtension)
    from tlslite.constants import ExtensionType as ET, TLS_1_3_HRR
    label = []

    def pick(name, options, good):
        if rng.random() < 0.7:
            i = options.index(rng.choice(good))
        else:
            i = rng.randrange(len(options))
        label.append('%s%d' % (name, i))
        return options[i]
    groups = list(ch.getExtension(ET.supported_groups).groups)
    shared = [s.group for s in ch.getExtension(ET.key_share).client_shares]
    noshare = [g for g in groups if g not in shared] or [0x1234]
    exts = [SrvSupportedVersionsExtension().create((3, 4))]
    ks = pick('ks', ['absent', 'offered-noshare', 'has-share', 'unoffered'], ['offered-noshare', 'absent'])
    if ks != 'absent':
        g = {'offered-noshare': noshare[0], 'has-share': shared[0], 'unoffered': 0x0a0a}[ks]
        exts.append(HRRKeyShareExtension().create(g))
    ck = pick('ck', ['absent', 'present', 'empty'], ['absent', 'present'])
    if ck == 'present':
        exts.append(TLSExtension(extType=ET.cookie, hrr=True).create(bytearray(b'\x00\x03abc')))
    elif ck == 'empty':
        exts.append(TLSExtension(extType=ET.cookie, hrr=True).create(bytearray(0)))
    ex = pick('ex', ['none', 'in-hello', 'not-in-hello', 'unknown'], ['none'])
    if ex == 'in-hello':
        exts.append(TLSExtension(extType=ET.extended_master_secret, hrr=True).create(bytearray(0)))
    elif ex == 'not-in-hello':
        exts.append(TLSExtension(extType=ET.alpn, hrr=True).create(bytearray(b'\x00\x03\x02h2')))
    elif ex == 'unknown':
        exts.append(TLSExtension(extType=0x7777, hrr=True).create(bytearray(b'\x01')))
    rng.shuffle(exts)
    sid = pick('sid', [bytes(ch.session_id), b'', bytes(32)], [bytes(ch.session_id)])
    suite = [x for x in ch.cipher_suites if (x >> 8) == 0x13][0]
    hrr = ServerHello().create((3, 3), bytearray(TLS_1_3_HRR), bytearray(sid), suite, extensions=exts)
    return bytes(hrr.write()), '-'.join(label)


def hrrsh_case(seed):
    import random
    import c08_fuzz
    from tlslite.messages import ServerHello, RecordHeader3
    from tlslite.utils.codec import Parser
    S = _hrrsh_state()
    rng = random.Random(seed)
    out = dict(label='?', hex='', lit=None, tie=None, crash=None, kind=None, seed=seed)
    pair = loop.Pair()
    kw = {'alpn': [b'http/1.1']} if rng.random() < 0.3 else {}
    g = pair.client.handshakeClientCert(async_=True, settings=loop.settings(), **kw)
    cap = {}
    reached = [False]

    def tracer(frame, event, arg):
        if frame.f_code.co_name != S['fn']:
            return None
        cap.setdefault('clientHello', frame.f_locals.get('clientHello'))

        def local(frame, event, arg):
            if event == 'line' and frame.f_lineno == S['start'] and not cap.get('entered'):
                cap['entered'] = True
                import copy
                # the own hello as it is when the region is entered (the region itself modifies it)
                cap['clientHello0'] = copy.deepcopy(frame.f_locals.get('clientHello'))
            if event == 'line' and frame.f_lineno >= S['end'] and cap.get('entered'):
                reached[0] = True
            return local
        return local

    def run():
        sys.settrace(tracer)
        try:
            r1 = loop.run_gen(g, max_steps=200)
            if cap.get('clientHello') is None:
                return None
            hrr_bytes, label = gen_hrr(rng, cap['clientHello'])
            cap['hrr_bytes'], cap['label'] = hrr_bytes, label
            pair.csock.inbuf += RecordHeader3().create((3, 3), 22, len(hrr_bytes)).write() + hrr_bytes
            return loop.run_gen(g, max_steps=3000)
        finally:
            sys.settrace(None)
    try:
        res = c08_fuzz.with_watchdog(run)
    except c08_fuzz.HangTimeout as e:
        sys.settrace(None)
        fn, line = c08_fuzz.hang_frame(e)
        out['crash'] = ('hang:%s:%s' % (fn, c08_fuzz._norm(line)), 'client does not return (spinning in %s: `%s`)' % (fn, line))
        return out
    if res is None:
        out['tie'] = 'client did not reach _clientGetServerHello in the harness'
        return out
    out['label'], out['hex'] = cap['label'], cap['hrr_bytes'].hex()
    cls = loop.classify(res)
    exc = res[1] if res[0] == 'exc' else None
    out['cls'] = cls
    if not cap.get('entered'):
        out['tie'] = 'client did not enter the HelloRetryRequest handling (%s): %r' % (cap['label'], cls)
        return out
    code = 0 if reached[0] else 1000 + cls[1] if cls[0] == 'LocalAlert' else 2000 if cls[0] in ('TLSError', 'AuthError') else \
        3000 + KIND_CODES.get(cls[1], 99) if cls[0] == 'Other' else -1
    out['code'] = code
    ch0 = cap['clientHello0']
    # the hypothesis of hrr_handling_crash_free on the client's own hello (as observed at region entry)
    sg, ks = ch0.getExtension(10), ch0.getExtension(51)
    if ch0.extensions is None or sg is None or sg.groups is None or ks is None or ks.client_shares is None:
        out['tie'] = 'own ClientHello violates hrr_own_ok (supported_groups/key_share missing)'
        return out
    try:
        hrr = ServerHello().parse(Parser(bytearray(cap['hrr_bytes'][1:])))
        out['lit'] = '(%s, %s, %s)' % (to_lit(ch0, OBJ('ClientHello'), S['schema'], 'clientHello'),
                                       to_lit(hrr, OBJ('ServerHello'), S['schema'], 'hello_retry'), vlib.zlit(code))
    except SchemaMismatch as e:
        out['tie'] = 'schema mismatch (HelloRetryRequest region): %s' % e
        return out
    except Exception as e:  # noqa
        out['tie'] = 'generated HelloRetryRequest does not parse: %r' % (e,)
        return out
    out['kind'] = 'ok' if code == 0 else 'alert%d' % (code - 1000) if 1000 <= code < 2000 else 'raised' if code == 2000 else \
        'crash:%s' % cls[1] if code >= 3000 else 'other'
    if code >= 3000:
        fn, line = c08_fuzz.innermost_tlslite_frame(exc)
        out['crash'] = (c08_fuzz.crash_key(exc),
                        'raises %s: %s (in %s: `%s`)' % (type(exc).__name__, str(exc)[:100], fn, line))
    elif code == -1:
        out['tie'] = 'client neither left the HelloRetryRequest handling nor failed (%s): %r' % (cap['label'], cls)
    return out


def run_stage_hrrsh(ctx, quick, model_ok, pool=None):
    n = 64 if quick else 1500
    seeds = [ctx.rng.randrange(1 << 62) for _ in range(n)]
    outs = pool.map(hrrsh_case, seeds, chunksize=4) if pool is not None else [hrrsh_case(x) for x in seeds]
    lits, metas, crashes = [], [], []
    tie = None
    for o in outs:
        tie = tie or o['tie']
        if o['crash']:
            crashes.append((o['label'], o.get('code'), o.get('cls'), o['hex'], o['seed'], o['crash'][0], o['crash'][1]))
        if o['lit'] is None:
            continue
        lits.append(o['lit'])
        metas.append((o['label'], o['code'], o['cls'], o['hex']))
        ctx.count('hrr-handling-region-live', 1, [(o['kind'],) + tuple(o['label'].split('-')[:3])])
    if model_ok and lits:
        bad, errs = vlib.coq_bad_indices('C08q', ['Base.C08_Lib', 'Gen.HrrShChecks'], 'CaseR', 'chk_hrrsh', lits,
                                         shard=max(8, (len(lits) + 15) // 16), preamble=PREAMBLE_HRRSH)
        ctx.count('hrr-handling-model-vs-impl(vm_compute)', len(lits), [('agree', len(lits) - len(bad))])
        for e in errs:
            tie = tie or 'case evaluation failed: ' + e[:400]
        for i in bad[:5]:
            ctx.log('HelloRetryRequest model/impl disagreement: %s live=%s' % (metas[i][0], metas[i][1:3]))
            tie = tie or 'crash model disagrees with the implementation on HelloRetryRequest %s (live %s) bytes=%s' % (
                metas[i][0], metas[i][2], metas[i][3][:200])
    return tie, crashes
