"""Shared by C01 and C02: record-level runs of the real tlslite RecordLayer with injected toy
contexts, and the Gallina literals that make the Coq model (Model/C01_RecordPipe.v +
Toy/C01_ToyCipher.v) evaluate the same cases."""
import vlib
from vlib import zlit
from c01_toys import ToyMac, ToyStream, ToyCBC, ToyAEAD

def blit(bs):
    """bytes -> Gallina list Z; long strings as a hex string literal (parsing long list literals is slow)"""
    bs = bytes(bytearray(bs))
    if len(bs) <= 24:
        return '[' + ';'.join(str(b) for b in bs) + ']'
    return '(unhex "%s")' % bs.hex()


def zlist(xs):
    return '[' + ';'.join(zlit(x) for x in xs) + ']'


IMPORTS = ['Spec.CbcCheck', 'Toy.ToyMac', 'Model.C01_RecordPipe', 'Toy.C01_ToyCipher']
ERR = {'TLSBadRecordMAC': 1, 'TLSDecryptionFailed': 2, 'TLSRecordOverflow': 3, 'TLSUnexpectedMessage': 4,
       'TLSIllegalParameterException': 5, 'ValueError': 6, 'AssertionError': 7}
ERRNAME = {v: k for k, v in ERR.items()}
MODES = ('plain', 'null', 'stream', 'cbc', 'etm', 'aead-aes', 'aead-chacha', 'aead-chacha-draft', 'tls13')


# ------------------------------------------------------------------------------------------
# padding callbacks, mirrored as Gallina terms
def pad_fn(spec):
    if spec is None:
        return None
    kind, k = spec
    if kind == 'const':
        return lambda length, ty, maxp: k
    if kind == 'max':
        return lambda length, ty, maxp: max(0, min(maxp, k))
    if kind == 'blk':
        return lambda length, ty, maxp: max(0, min(maxp, (k - length % k) % k))
    raise ValueError(spec)


def pad_lit(spec):
    if spec is None:
        return 'None'
    kind, k = spec
    if kind == 'const':
        return '(Some (fun (_ _ _ : Z) => %s))' % zlit(k)
    if kind == 'max':
        return '(Some (fun (_ _ m : Z) => Z.max 0 (Z.min m %d)))' % k
    if kind == 'blk':
        return '(Some (fun (l _ m : Z) => Z.max 0 (Z.min m ((%d - l mod %d) mod %d))))' % (k, k, k)
    raise ValueError(spec)


# ------------------------------------------------------------------------------------------
def default_cfg(mode, ver, **kw):
    c = dict(mode=mode, ver=tuple(ver), bs=16, mds=20, mbs=64, tag=16, nonce_len=12,
             enc_key=bytes(range(1, 17)), mac_key=bytes(range(7, 27)), iv=bytes(range(100, 116)),
             fixed_nonce=b'\x0a\x0b\x0c\x0d', fixed_iv=bytes(range(50, 66)), send_limit=2 ** 14, recv_limit=2 ** 14,
             pad=None, seq=0, plain_alert=True)
    if mode in ('aead-chacha', 'tls13'):
        c['fixed_nonce'] = bytes(range(200, 212))
    c.update(kw)
    if mode in ('cbc', 'etm'):
        bs = c['bs']
        c['enc_key'] = bytes((c['enc_key'] * 16)[:bs])
        c['iv'] = bytes((c['iv'] * 16)[:bs])
        c['fixed_iv'] = bytes((c['fixed_iv'] * 16)[:bs])
    return c


def flags(c):
    m = c['mode']
    return dict(
        has_enc=m not in ('null', 'plain'), has_mac=m in ('null', 'stream', 'cbc', 'etm'), block=m in ('cbc', 'etm'),
        aead=m.startswith('aead') or m == 'tls13', etm=m == 'etm',
        aes=m == 'aead-aes' or (m == 'tls13' and c.get('t13name', 'aes128gcm').startswith('aes')),
        chacha=m in ('aead-chacha', 'aead-chacha-draft') or (m == 'tls13' and c.get('t13name') == 'chacha20-poly1305'),
        tls13=tuple(c['ver']) > (3, 3))


def aead_name(c):
    m = c['mode']
    if m == 'aead-aes':
        return 'aes128gcm'
    if m in ('aead-chacha', 'aead-chacha-draft'):
        return 'chacha20-poly1305'
    return c.get('t13name', 'aes128gcm')


def make_state(c, seq=None, iv=None):
    """A ConnectionState with toy contexts (used as write state of the sender or read state of
    the receiver)."""
    from tlslite.recordlayer import ConnectionState
    st = ConnectionState()
    m = c['mode']
    if m in ('null', 'stream', 'cbc', 'etm'):
        st.macContext = ToyMac(c['mac_key'], c['mds'], c['mbs'])
    if m == 'stream':
        st.encContext = ToyStream(c['enc_key'], h=(iv[0] if iv is not None else None))
    elif m in ('cbc', 'etm'):
        st.encContext = ToyCBC(c['enc_key'], c['iv'] if iv is None else iv)
    elif m.startswith('aead') or m == 'tls13':
        st.encContext = ToyAEAD(c['enc_key'], c['tag'], aead_name(c), c['nonce_len'])
        st.fixedNonce = bytearray(c['fixed_nonce'])
    st.encryptThenMAC = (m == 'etm')
    st.seqnum = c['seq'] if seq is None else seq
    return st


class SinkSock(object):
    def __init__(self):
        self.out = bytearray()
        self.inp = bytearray()

    def send(self, data):
        self.out += bytearray(data)
        return len(data)

    def sendall(self, data):
        self.out += bytearray(data)

    def recv(self, n):
        if not self.inp:
            raise RuntimeError('would block: record incomplete')
        r = bytes(self.inp[:n])
        del self.inp[:n]
        return r


def make_rl(c, role, seq=None, iv=None):
    from tlslite.recordlayer import RecordLayer
    sock = SinkSock()
    rl = RecordLayer(sock)
    rl.version = tuple(c['ver'])
    if tuple(c['ver']) > (3, 3):
        rl.tls13record = True
    st = make_state(c, seq, iv)
    if role == 'send':
        rl._writeState = st
        rl.fixedIVBlock = bytearray(c['fixed_iv'])
        rl.padding_cb = pad_fn(c['pad'])
        rl.send_record_limit = c['send_limit']
    else:
        rl._readState = st
        rl.recv_record_limit = c['recv_limit']
        rl.allow_plaintext_alert = c.get('plain_alert', True)
    return rl, sock, st


def cs_of(st):
    return st.encContext.state() if st.encContext is not None else []


def run_gen_plain(g):
    r = None
    for r in g:
        if r in (0, 1) and not isinstance(r, tuple):
            raise RuntimeError('unexpected block')
    return r


def impl_send(c, recs):
    """Returns (list of wire byte strings or error code, final seq, final cipher state)."""
    from tlslite.messages import Message
    rl, sock, st = make_rl(c, 'send')
    outs = []
    for ty, data in recs:
        sock.out = bytearray()
        try:
            for _ in rl.sendRecord(Message(ty, bytearray(data))):
                pass
            outs.append(bytes(sock.out))
        except Exception as e:  # noqa
            outs.append(ERR.get(type(e).__name__, 99))
            break
    return outs, st.seqnum, cs_of(st)


def impl_recv(c, wires, seq=None, iv=None):
    """wires: list of (hty, hver, body).  Returns list of (code, ty, payload), final seq, cs."""
    rl, sock, st = make_rl(c, 'recv', seq, iv)
    outs = []
    for hty, hver, body in wires:
        sock.inp = bytearray([hty, hver[0], hver[1], len(body) >> 8, len(body) & 255]) + bytearray(body)
        try:
            r = None
            for r in rl.recvRecord():
                if isinstance(r, tuple):
                    break
            hdr, parser = r
            outs.append((0, hdr.type, bytes(parser.bytes)))
        except Exception as e:  # noqa
            outs.append((ERR.get(type(e).__name__, 99), -1, b''))
            break
    st = rl._readState
    return outs, st.seqnum, cs_of(st)


def parse_wire(bs):
    bs = bytes(bs)
    return (bs[0], (bs[1], bs[2]), bs[5:])


# ------------------------------------------------------------------------------------------
def cfg_lit(c):
    f = flags(c)
    b = vlib.boollit
    return ('{| c_ver := (%d,%d); c_tls13 := %s; c_has_enc := %s; c_has_mac := %s; c_block := %s; c_aead := %s; '
            'c_etm := %s; c_bs := %d; c_aes := %s; c_chacha := %s; c_tag := %d; c_nonce_len := %d; '
            'c_fixed_nonce := %s; c_fixed_iv := %s; c_send_limit := %s; c_recv_limit := %s; c_pad_cb := %s; c_plain_alert := %s |}' % (
                c['ver'][0], c['ver'][1], b(f['tls13']), b(f['has_enc']), b(f['has_mac']), b(f['block']), b(f['aead']),
                b(f['etm']), c['bs'], b(f['aes']), b(f['chacha']), c['tag'], c['nonce_len'],
                blit(c['fixed_nonce']) if f['aead'] else '[]', blit(c['fixed_iv']), zlit(c['send_limit']),
                zlit(c['recv_limit']), pad_lit(c['pad']), b(c.get('plain_alert', True))))


def prim_lit(c):
    m = c['mode']
    if m in ('null', 'stream', 'plain'):
        return '(toy_prim_stream %s %d %d)' % (blit(c['mac_key']), c['mds'], c['mbs'])
    if m in ('cbc', 'etm'):
        return '(toy_prim_cbc %d %s %s %d %d)' % (c['bs'], blit(c['enc_key']), blit(c['mac_key']), c['mds'], c['mbs'])
    return '(toy_prim_aead %s %d)' % (blit(c['enc_key']), c['tag'])


def st_lit(c, seq=None, iv=None):
    m = c['mode']
    if m == 'stream':
        cs = ('ts_init %s' % blit(c['enc_key'])) if iv is None else zlist(iv)
    elif m in ('cbc', 'etm'):
        cs = blit(c['iv'] if iv is None else iv)
    else:
        cs = '[]'
    return '{| st_cs := %s; st_seq := %s |}' % (cs, zlit(c['seq'] if seq is None else seq))


def wire_lit(w):
    return '(%d, (%d,%d), %s)' % (w[0], w[1][0], w[1][1], blit(w[2]))


PREAMBLE = '''
From Coq Require Import Ascii.
Definition hexval (a : ascii) : Z := let n := Z.of_N (N_of_ascii a) in if n <? 58 then n - 48 else n - 87.
Fixpoint unhex (s : string) : list Z :=
  match s with
  | String a (String b r) => (16 * hexval a + hexval b) :: unhex r
  | _ => []
  end.
Definition TCS := list Z.
Definition st_eqb (s : St TCS) (seq : Z) (cs : list Z) : bool := (st_seq s =? seq) && list_eqb (st_cs s) cs.
(* sender: records -> expected wire bytes (or an error code for the failing record), final seq/state *)
Definition SendCase := (Cfg * Prim TCS * St TCS * list (Z * list Z) * list (Z * list Z) * Z * list Z)%type.
Fixpoint send_loop (c : Cfg) (P : Prim TCS) (s : St TCS) (recs : list (Z * list Z)) (exp : list (Z * list Z))
  : option (St TCS) :=
  match recs, exp with
  | [], [] => Some s
  | r :: rs, (code, bytes) :: es =>
      match protect c P s r with
      | ROk (s1, w) => if (code =? 0) && list_eqb (wire_bytes w) bytes then send_loop c P s1 rs es else None
      | RErr e => if (rerr_code e =? code) then match es with [] => Some s | _ => None end else None
      end
  | _, _ => None
  end.
Definition chk_send (k : SendCase) : bool :=
  let '(c, P, s, recs, exp, fseq, fcs) := k in
  match send_loop c P s recs exp with
  | Some s1 => match exp with
               | _ => if existsb (fun e => negb (fst e =? 0)) exp then true else st_eqb s1 fseq fcs
               end
  | None => false
  end.
(* receiver: wires -> expected (code, type, payload), final seq/state when no error *)
Definition RecvCase := (Cfg * Prim TCS * St TCS * list Wire * list (Z * Z * list Z) * Z * list Z)%type.
Fixpoint recv_loop (c : Cfg) (P : Prim TCS) (s : St TCS) (ws : list Wire) (exp : list (Z * Z * list Z))
  : option (St TCS) :=
  match ws, exp with
  | [], [] => Some s
  | w :: ws', (code, ty, pl) :: es =>
      match unprotect c P s w with
      | ROk (s1, (ty1, pl1)) => if (code =? 0) && (ty =? ty1) && list_eqb pl pl1 then recv_loop c P s1 ws' es else None
      | RErr e => if (rerr_code e =? code) then match es with [] => Some s | _ => None end else None
      end
  | _ :: _, [] => Some s          (* the implementation stopped at an error reported earlier *)
  | _, _ => None
  end.
Definition chk_recv (k : RecvCase) : bool :=
  let '(c, P, s, ws, exp, fseq, fcs) := k in
  match recv_loop c P s ws exp with
  | Some s1 => if existsb (fun e => negb (fst (fst e) =? 0)) exp then true else st_eqb s1 fseq fcs
  | None => false
  end.
'''


def send_case_lit(c, recs, outs, fseq, fcs):
    exp = []
    for o in outs:
        exp.append('(0, %s)' % blit(o) if not isinstance(o, int) else '(%d, [])' % o)
    return '(%s, %s, %s, [%s], [%s], %s, %s)' % (
        cfg_lit(c), prim_lit(c), st_lit(c), ';'.join('(%d, %s)' % (t, blit(d)) for t, d in recs[:len(outs)]),
        ';'.join(exp), zlit(fseq), zlist(fcs))


def recv_case_lit(c, wires, outs, fseq, fcs, seq=None, iv=None, names=None):
    return '(%s, %s, %s, [%s], [%s], %s, %s)' % (
        names[0] if names else cfg_lit(c), names[1] if names else prim_lit(c), st_lit(c, seq, iv),
        ';'.join(wire_lit(w) for w in wires),
        ';'.join('(%d, %s, %s)' % (code, zlit(ty), blit(pl)) for code, ty, pl in outs), zlit(fseq), zlist(fcs))


def impl_send_snap(c, recs):
    """Like impl_send, and the (seqnum, cipher state) the sender was in before each record."""
    from tlslite.messages import Message
    rl, sock, st = make_rl(c, 'send')
    outs, snaps = [], []
    for ty, data in recs:
        snaps.append((st.seqnum, cs_of(st)))
        sock.out = bytearray()
        for _ in rl.sendRecord(Message(ty, bytearray(data))):
            pass
        outs.append(bytes(sock.out))
    snaps.append((st.seqnum, cs_of(st)))
    return outs, snaps


def recv_at(c, snap, wires):
    """Real recvRecord on `wires`, receiver starting in step with sender snapshot `snap`."""
    seq, cs = snap
    return impl_recv(c, wires, seq=seq, iv=(cs if cs else None))


def recv_case_at(c, snap, wires, outs, fseq, fcs, names=None):
    seq, cs = snap
    return recv_case_lit(c, wires, outs, fseq, fcs, seq=seq, iv=(cs if cs else None), names=names)
