"""Site tables read off /repo's source (ast): every assignment to the record-size-limit state and
every read-key change with the guard in force.  C01/C02 compare them with the tables their models
were written against; a new, removed or re-guarded site is a broken tie."""
import ast
import os

LIMIT_ATTRS = ('_send_record_limit', '_recv_record_limit', 'send_record_limit', 'recv_record_limit',
               '_peer_record_size_limit', '_own_record_size_limit', '_user_record_limit', 'recordSize')
FLAG_ATTRS = ('_middlebox_compat_mode', 'allow_plaintext_alert', 'early_data_ok', 'max_early_data')
FILES = ('tlslite/tlsconnection.py', 'tlslite/tlsrecordlayer.py', 'tlslite/recordlayer.py')


def _src(node):
    return ' '.join(ast.unparse(node).split())


class _V(ast.NodeVisitor):
    def __init__(self, fname):
        self.fname = fname
        self.func = []
        self.guards = []
        self.limit_sites = []
        self.key_sites = []
        self.guard_sites = []
        self.flag_sites = []
        self.last_switch = None
        self.prev_defrag_guard = {}

    def visit_FunctionDef(self, node):
        self.func.append(node.name)
        self.last_switch = None
        saved, self.guards = self.guards, []
        self.prev_defrag_guard[node.name] = None
        self.generic_visit(node)
        self.guards = saved
        self.func.pop()

    def visit_If(self, node):
        t = _src(node.test)
        if '_defragmenter' in t and self.func:
            self.prev_defrag_guard[self.func[-1]] = t
            self.guard_sites.append((self.fname, self.func[-1], t))
        self.guards.append(t)
        for n in node.body:
            self.visit(n)
        self.guards.pop()
        self.guards.append('not (' + t + ')')
        for n in node.orelse:
            self.visit(n)
        self.guards.pop()

    def visit_Assign(self, node):
        for tg in node.targets:
            if isinstance(tg, ast.Attribute) and tg.attr in LIMIT_ATTRS:
                self.limit_sites.append((self.fname, self.func[-1] if self.func else '<module>', _src(tg),
                                         ' && '.join(self.guards), _src(node.value),
                                         'after ' + self.last_switch if self.last_switch else 'no key switch before'))
            if isinstance(tg, ast.Attribute) and tg.attr in FLAG_ATTRS:
                self.flag_sites.append((self.fname, self.func[-1] if self.func else '<module>', _src(tg),
                                        ' && '.join(self.guards), _src(node.value)))
        self.generic_visit(node)

    def visit_Call(self, node):
        f = node.func
        if isinstance(f, ast.Attribute) and f.attr in ('_changeWriteState', '_changeReadState') and self.func \
                and self.func[-1] not in ('_changeWriteState', '_changeReadState'):
            self.last_switch = f.attr
        if isinstance(f, ast.Attribute) and f.attr in ('_changeReadState', 'changeReadState',
                                                        'calcTLS1_3KeyUpdate_sender') and self.func:
            if not (self.func[-1] == '_changeReadState'):
                self.key_sites.append((self.fname, self.func[-1], f.attr, ' && '.join(self.guards),
                                       self.prev_defrag_guard.get(self.func[-1])))
        self.generic_visit(node)


def scan(repo):
    lim, key, grd, flg = [], [], [], []
    for fn in FILES:
        with open(os.path.join(repo, fn)) as f:
            tree = ast.parse(f.read())
        v = _V(fn.split('/')[-1])
        v.visit(tree)
        lim += v.limit_sites
        key += v.key_sites
        grd += v.guard_sites
        flg += v.flag_sites
    return lim, key, grd, flg


# ---- tables the C01/C02 models were written against (/repo 7ffe769); regenerate with `python c01_sites.py /repo`
EXPECTED_LIMIT_SITES = [
    (('tlsconnection.py', '__init__', 'self._peer_record_size_limit', '', 'None', 'no key switch before'), 'default / plain setter'),
    (('tlsconnection.py', '__init__', 'self._own_record_size_limit', '', 'None', 'no key switch before'), 'default / plain setter'),
    (('tlsconnection.py', '_clientGetServerHello', 'self._peer_record_size_limit', 'size_limit_ext', 'size_limit_ext.record_size_limit', 'no key switch before'), "TLS<=1.2 client: the peer's value, kept until the WRITE state switch"),
    (('tlsconnection.py', '_clientGetServerHello', 'self._own_record_size_limit', 'size_limit_ext && settings.record_size_limit', 'min(2 ** 14, settings.record_size_limit)', 'no key switch before'), 'TLS<=1.2 client: own value min(2^14, setting), kept until the READ state switch'),
    (('tlsconnection.py', '_clientTLS13Handshake', 'self._send_record_limit', 'size_limit_ext', 'size_limit_ext.record_size_limit - 1', 'after _changeReadState'), 'send_limit_after true true ext (TLS 1.3: immediately, records are protected from here)'),
    (('tlsconnection.py', '_clientTLS13Handshake', 'self._recv_record_limit', 'size_limit_ext', 'min(2 ** 14, settings.record_size_limit - 1)', 'after _changeReadState'), 'recv_limit_after true own'),
    (('tlsconnection.py', '_serverGetClientHello', 'self._send_record_limit', 'size_limit_ext && settings.record_size_limit && version >= (3, 4)', 'min(2 ** 14, size_limit_ext.record_size_limit - 1)', 'no key switch before'), 'send_limit_after true false ext'),
    (('tlsconnection.py', '_serverGetClientHello', 'self._recv_record_limit', 'size_limit_ext && settings.record_size_limit && version >= (3, 4)', 'min(2 ** 14, settings.record_size_limit - 1)', 'no key switch before'), 'recv_limit_after true own / HelloRetryRequest: 2^14 while the second ClientHello is read'),
    (('tlsconnection.py', '_serverGetClientHello', 'self._peer_record_size_limit', 'size_limit_ext && settings.record_size_limit && not (version >= (3, 4))', 'min(2 ** 14, size_limit_ext.record_size_limit)', 'no key switch before'), 'TLS<=1.2 server: min(2^14, ext), kept until the WRITE state switch'),
    (('tlsconnection.py', '_serverGetClientHello', 'self._own_record_size_limit', 'size_limit_ext && settings.record_size_limit && not (version >= (3, 4))', 'min(2 ** 14, settings.record_size_limit)', 'no key switch before'), 'TLS<=1.2 server: own value, kept until the READ state switch'),
    (('tlsconnection.py', '_serverGetClientHello', 'self._recv_record_limit', 'version > (3, 3) && hrr_ext', '2 ** 14', 'no key switch before'), 'recv_limit_after true own / HelloRetryRequest: 2^14 while the second ClientHello is read'),
    (('tlsconnection.py', '_serverGetClientHello', 'self._recv_record_limit', 'version > (3, 3) && hrr_ext', 'recv_limit', 'no key switch before'), 'recv_limit_after true own / HelloRetryRequest: 2^14 while the second ClientHello is read'),
    (('tlsconnection.py', '_sendFinished', 'self._send_record_limit', 'self._peer_record_size_limit', 'self._peer_record_size_limit', 'after _changeWriteState'), 'limit_at_phase: send limit takes effect with the WRITE state switch (full and resumed handshakes, both roles)'),
    (('tlsconnection.py', '_getFinished', 'self._recv_record_limit', 'self._peer_record_size_limit and self._own_record_size_limit', 'self._own_record_size_limit', 'after _changeReadState'), 'limit_at_phase: receive limit takes effect with the READ state switch (RFC 8449 section 4: protected records only)'),
    (('tlsrecordlayer.py', '__init__', 'self._user_record_limit', '', '16384', 'no key switch before'), 'default / plain setter'),
    (('tlsrecordlayer.py', '_send_record_limit', 'self._recordLayer.send_record_limit', '', 'value', 'no key switch before'), 'default / plain setter'),
    (('tlsrecordlayer.py', '_recv_record_limit', 'self._recordLayer.recv_record_limit', '', 'value', 'no key switch before'), 'default / plain setter'),
    (('tlsrecordlayer.py', 'recordSize', 'self._user_record_limit', '', 'value', 'no key switch before'), 'default / plain setter'),
    (('recordlayer.py', '__init__', 'self.recv_record_limit', '', '2 ** 14', 'no key switch before'), 'default / plain setter'),
    (('recordlayer.py', '__init__', 'self.send_record_limit', '', '2 ** 14', 'no key switch before'), 'default / plain setter'),
    (('recordlayer.py', 'recv_record_limit', 'self._recordSocket.recv_record_limit', '', 'value', 'no key switch before'), 'default / plain setter'),
]
EXPECTED_KEY_SITES = [
    ('tlsconnection.py', '_clientTLS13Handshake', '_changeReadState', '', None),
    ('tlsconnection.py', '_clientTLS13Handshake', '_changeReadState', '', None),
    ('tlsconnection.py', '_serverTLS13Handshake', '_changeReadState', '', None),
    ('tlsconnection.py', '_serverTLS13Handshake', '_changeReadState', '', None),
    ('tlsconnection.py', '_getFinished', '_changeReadState', '', 'not self._defragmenter.is_empty()'),
    ('tlsrecordlayer.py', '_handle_keyupdate_request', 'calcTLS1_3KeyUpdate_sender', 'request.message_type == KeyUpdateMessageType.update_not_requested or request.message_type == KeyUpdateMessageType.update_requested', None),
]
EXPECTED_GUARD_SITES = [
    ('tlsconnection.py', '_clientGetServerHello', 'real_version > (3, 3) and (not self._defragmenter.is_empty())'),
    ('tlsconnection.py', '_serverGetClientHello', 'not self._defragmenter.is_empty()'),
    ('tlsconnection.py', '_getFinished', 'not self._defragmenter.is_empty()'),
    ('tlsrecordlayer.py', '_getMsg', 'self.version > (3, 3) and recordHeader.type != ContentType.handshake and self._defragmenter.buffers[ContentType.handshake]'),
    ('tlsrecordlayer.py', '_getMsg', 'self.version > (3, 3) and subType in (HandshakeType.client_hello, HandshakeType.end_of_early_data, HandshakeType.server_hello, HandshakeType.finished, HandshakeType.key_update) and (not self._defragmenter.is_empty())'),
]

EXPECTED_FLAG_SITES = [   # where the tolerance for unprotected / undecryptable records opens and closes
    ('tlsconnection.py', '_clientTLS13Handshake', 'self._middlebox_compat_mode', '', 'False'),
    ('tlsconnection.py', '_serverTLS13Handshake', 'self._middlebox_compat_mode', '', 'False'),
    ('tlsconnection.py', '_serverGetClientHello', 'self._recordLayer.max_early_data', 'ver_ext and (3, 4) in ver_ext.versions && early_data', 'settings.max_early_data'),
    ('tlsconnection.py', '_serverGetClientHello', 'self._recordLayer.early_data_ok', 'ver_ext and (3, 4) in ver_ext.versions && early_data', 'True'),
    ('tlsrecordlayer.py', '__init__', 'self._middlebox_compat_mode', '', 'True'),
    ('tlsrecordlayer.py', '_getNextRecord', 'self._recordLayer.early_data_ok', 'header.type == ContentType.application_data or (self.version > (3, 3) and header.type == ContentType.change_cipher_spec) && header.type == ContentType.change_cipher_spec', 'early_data_ok'),
    ('tlsrecordlayer.py', '_handshakeStart', 'self._recordLayer.allow_plaintext_alert', '', 'True'),
    ('tlsrecordlayer.py', '_handshakeDone', 'self._recordLayer.allow_plaintext_alert', '', 'False'),
    ('recordlayer.py', '__init__', 'self.allow_plaintext_alert', '', 'True'),
    ('recordlayer.py', '__init__', 'self.max_early_data', '', '0'),
    ('recordlayer.py', 'recvRecord', 'self.early_data_ok', '', 'False'),
]


def _facts(rows):
    """Compared as a multiset of (file, target, guard, value): the name of the enclosing function is
    documentation only, so moving a statement into an extracted helper does not break the tie."""
    from collections import Counter
    return Counter((r[0],) + tuple(r[2:]) for r in rows)


def _diff(kind, got, exp):
    g, e = _facts(got), _facts(exp)
    out = ['unexpected/changed %s: %r' % (kind, k) for k in (g - e)]
    out += ['%s gone/changed: %r' % (kind, k) for k in (e - g)]
    return out


def diff_sites(repo):
    """Returns (limit_diffs, key_diffs): human readable differences between /repo and the expected tables."""
    lim, key, grd, flg = scan(repo)
    d1 = _diff('limit site', lim, [x for x, _ in EXPECTED_LIMIT_SITES])
    d2 = _diff('key-change site', key, EXPECTED_KEY_SITES)
    d2 += _diff('defragmenter guard', grd, EXPECTED_GUARD_SITES)
    d2 += _diff('tolerance-flag site', flg, EXPECTED_FLAG_SITES)
    return d1, d2


if __name__ == '__main__':
    import sys
    lim, key, grd, flg = scan(sys.argv[1] if len(sys.argv) > 1 else '/repo')
    for x in flg:
        print('F', x)
    for x in lim:
        print('L', x)
    for x in key:
        print('K', x)
    for x in grd:
        print('G', x)
