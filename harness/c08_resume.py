"""C08: "after such a failure ... the session is not resumable", checked as OBSERVABLE resumability.

History of three connections over in-memory endpoints:
  1. an honest full handshake populates the server's SessionCache / hands the client a session (ID or ticket);
  2. a second connection uses that session (resumed, or again full when `on='full'`); the peer then misbehaves
     (garbage-MAC record, corrupted Finished, fatal alert, truncated record + EOF, ...) so that the call on the
     endpoint under test (EUT) FAILS;
  3. a third connection offers the very same session again.
Oracle: if the EUT is the server, connection 3 (honest client offering a pristine copy of the session) must be a FULL
handshake (`resumed` false on both ends) -- i.e. the failure invalidated what the server's cache hands out, not just
some per-connection copy; if the EUT is the client, the session object the application holds must no longer be
offered (the third ClientHello carries no session ID / no pre_shared_key for it).
Stateless tickets cannot be revoked by a server without a cache; those combinations are run and recorded but only
what holds on the reference tree by construction is enforced (see enforced())."""
import copy
import random

import loop
import c08_fuzz
from c08_fuzz import RawMsg
from tlslite import errors as tlserr

KINDS = {
    # name: (client settings, server settings, server uses a SessionCache, needs post-handshake read to get tickets)
    'sid12': (dict(maxVersion=(3, 3)), dict(maxVersion=(3, 3)), True, False),
    'sid10': (dict(maxVersion=(3, 1)), dict(maxVersion=(3, 1)), True, False),
    'ticket12+cache': (dict(maxVersion=(3, 3)), dict(maxVersion=(3, 3), ticketKeys=[bytearray(b'\x05' * 32)]), True, False),
    'ticket12': (dict(maxVersion=(3, 3)), dict(maxVersion=(3, 3), ticketKeys=[bytearray(b'\x05' * 32)]), False, False),
    'ticket13': (dict(), dict(ticketKeys=[bytearray(b'\x07' * 32)]), False, True),
    'ticket13+cache': (dict(), dict(ticketKeys=[bytearray(b'\x07' * 32)]), True, True),
}
FAILURES = ['bad-mac-appdata', 'fatal-alert', 'corrupt-finished', 'trunc-eof', 'oversize-record', 'junk-handshake']
def enforced(kind, role, on):
    """Is non-resumability after a failure REQUIRED for this combination?
    * TLS <= 1.2 (connections resumed from a session share its master secret; RFC 5246 7.2.2: both parties MUST
      forget the session of a failed connection): always for the client (it holds the state), for the server when
      the state is in its SessionCache (session-ID resumption).  Stateless tickets cannot be revoked by the server.
    * TLS 1.3: a resumed connection has fresh keys and its own Session object; the ticket-bearing session the
      application holds is a different object and RFC 8446 does not ask to discard it: only on='full' is enforced
      (the session created by the failed connection itself)."""
    if kind.startswith('sid'):
        return True
    if kind.startswith('ticket12'):
        return role == 'client'
    return on == 'full'


def _connect(kind, state, session=None, fail=None, role='server', rng=None, log=None):
    """One connection.  Returns (pair, client outcome, server outcome, info)."""
    cset, sset, use_cache, need_read = KINDS[kind]
    pair = loop.Pair()
    cert, key = loop.creds('rsa')
    skw = dict(certChain=cert, privateKey=key, settings=loop.settings(**sset))
    if use_cache:
        skw['sessionCache'] = state.setdefault('cache', loop.SessionCache())
    ckw = dict(settings=loop.settings(**cset))
    if session is not None:
        ckw['session'] = session
    eut = pair.server if role == 'server' else pair.client
    peer = pair.client if role == 'server' else pair.server
    peer_sock = pair.csock if role == 'server' else pair.ssock
    info = {'applied': False, 'client_hello': None}
    # observe the ClientHello that goes out (what is offered)
    orig_c = pair.client._sendMsg

    def c_send(msg, randomizeFirstBlock=True, update_hashes=True):
        if info['client_hello'] is None and getattr(msg, 'contentType', None) == 22:
            try:
                b = bytes(msg.write())
                if b and b[0] == 1:
                    info['client_hello'] = b
            except Exception:  # noqa
                pass
        for r in orig_c(msg, randomizeFirstBlock, update_hashes):
            yield r
    pair.client._sendMsg = c_send
    if fail in ('corrupt-finished', 'junk-handshake'):
        orig_p = peer._sendMsg

        def p_send(msg, randomizeFirstBlock=True, update_hashes=True):
            if not info['applied'] and msg.contentType == 22:
                data = bytearray(msg.write())
                if fail == 'corrupt-finished' and data and data[0] == 20:
                    info['applied'] = True
                    data[-1] ^= 0x55
                    msg = RawMsg(22, data)
                elif fail == 'junk-handshake' and data and data[0] == 20:
                    info['applied'] = True
                    msg = RawMsg(22, c08_fuzz.hs_wrap(99, b'\x00\x01\x02'))
            for r in orig_p(msg, randomizeFirstBlock, update_hashes):
                yield r
        peer._sendMsg = p_send
    cg = pair.client.handshakeClientCert(async_=True, **ckw)
    sg = pair.server.handshakeServerAsync(**skw)
    socks = (pair.csock, pair.ssock)
    closed = [False]

    def on_idle():
        if not closed[0]:
            closed[0] = True
            peer_sock.close()
            return True
        return False
    rc, rs = c08_fuzz.drive2([cg, sg], socks, on_idle=on_idle)
    out = [rc, rs]
    if rc[0] == 'ok' and rs[0] == 'ok':
        info['resumed'] = (bool(pair.client.resumed), bool(pair.server.resumed))
        payload = b'x' * 40

        def writer():
            if fail == 'fatal-alert':
                info['applied'] = True
                for r in peer._sendMsg(RawMsg(21, bytes([2, 40]))):
                    yield r
                return
            if fail in ('bad-mac-appdata', 'trunc-eof', 'oversize-record'):
                info['applied'] = True
                buf = []

                def tap(name, chunk):
                    buf.append(chunk)
                    return b''
                peer_sock.tap = tap
                for r in peer.writeAsync(payload):
                    yield r
                peer_sock.tap = None
                rec = bytearray(b''.join(buf))
                if fail == 'bad-mac-appdata':
                    rec[-1] ^= 0x01
                elif fail == 'trunc-eof':
                    rec = rec[:len(rec) // 2]
                else:
                    rec = rec[:3] + bytes([0x48, 0x00]) + bytes(0x4800)
                eut_sock = pair.ssock if role == 'server' else pair.csock
                eut_sock.inbuf += bytes(rec)
                if fail == 'trunc-eof':
                    peer_sock.close()
                return
            for r in peer.writeAsync(payload):
                yield r

        def reader():
            got = 0
            while got < len(payload):
                v = None
                for v in eut.readAsync(max=64, min=1):
                    if v in (0, 1) and not isinstance(v, (bytes, bytearray)):
                        yield v
                    else:
                        break
                if isinstance(v, (bytes, bytearray)) and len(v):
                    got += len(v)
                else:
                    return
        closed[0] = False
        re_, rp = c08_fuzz.drive2([reader(), writer()], socks, on_idle=on_idle)
        if role == 'server':
            out = [rp if rp[0] != 'ok' else rc, re_]
        else:
            out = [re_, rp if rp[0] != 'ok' else rs]
        if fail is None:
            # orderly end so that the session stays usable
            c08_fuzz.drive2([pair.client.closeAsync(), pair.server.closeAsync()], socks, on_idle=on_idle)
    return pair, out[0], out[1], info


def offers_session(client_hello, session):
    """does this ClientHello offer the given session (session ID, session ticket or TLS 1.3 PSK identity)?"""
    if client_hello is None:
        return None
    from tlslite.messages import ClientHello
    from tlslite.utils.codec import Parser
    ch = ClientHello().parse(Parser(bytearray(client_hello[1:])))
    sid = bytes(session.sessionID or b'')
    if sid and bytes(ch.session_id) == sid:
        return 'session-id'
    t = ch.getExtension(35)
    if t is not None and getattr(t, 'ticket', None):
        return 'session-ticket'
    if ch.getExtension(41) is not None:
        return 'pre_shared_key'
    return None


def run_resume_case(case):
    """case: dict(kind, role, on='resumed'|'full', fail, seed)"""
    det = loop.DetRandom(case['seed'] & 0xffff).install()
    clock = loop.FakeClock().install()
    try:
        return _run(case)
    finally:
        det.uninstall()
        clock.uninstall()


def _run(case):
    kind, role, fail = case['kind'], case['role'], case['fail']
    state = {}
    res = dict(case=case, problems=[], status='?')
    # 1. honest full handshake
    p1, c1, s1, i1 = _connect(kind, state, role=role)
    if c1[0] != 'ok' or s1[0] != 'ok' or p1.client.session is None:
        res['status'] = 'setup-failed:%r/%r' % (loop.classify(c1), loop.classify(s1))
        return res
    sess = p1.client.session
    pristine = copy.copy(sess)
    if getattr(sess, 'tickets', None) is not None:
        pristine.tickets = list(sess.tickets)
    # 2. second connection, made to fail
    p2, c2, s2, i2 = _connect(kind, state, session=(sess if case['on'] == 'resumed' else None), fail=fail, role=role)
    eut_out = s2 if role == 'server' else c2
    res['second'] = dict(resumed=i2.get('resumed'), client=loop.classify(c2), server=loop.classify(s2), applied=i2['applied'])
    if case['on'] == 'resumed' and i2.get('resumed') is not None and not all(i2['resumed']) and 'corrupt' not in fail \
            and 'junk' not in fail:
        res['status'] = 'not-resumed'
        return res
    if eut_out[0] != 'exc':
        res['status'] = 'no-failure'
        return res
    exc = eut_out[1]
    orderly = isinstance(exc, tlserr.TLSRemoteAlert) and int(exc.description) == 0
    if orderly:
        res['status'] = 'orderly'
        return res
    used = sess if case['on'] == 'resumed' else p2.client.session
    if used is None:
        res['status'] = 'no-session'
        return res
    # 3. third connection offering the same session
    if role == 'server':
        offer = copy.copy(pristine) if case['on'] == 'resumed' else copy.copy(used)
        try:
            offer.resumable = True
        except Exception:  # noqa
            pass
        p3, c3, s3, i3 = _connect(kind, state, session=offer, role=role)
        res['third'] = dict(resumed=i3.get('resumed'), client=loop.classify(c3), server=loop.classify(s3),
                            offered=offers_session(i3['client_hello'], offer))
        if i3.get('resumed') and any(i3['resumed']):
            res['status'] = 'RESUMED-AFTER-FAILURE'
        else:
            res['status'] = 'ok'
    else:
        p3, c3, s3, i3 = _connect(kind, state, session=used, role=role)
        off = offers_session(i3['client_hello'], used)
        res['third'] = dict(resumed=i3.get('resumed'), client=loop.classify(c3), server=loop.classify(s3), offered=off)
        res['status'] = 'OFFERED-AFTER-FAILURE' if off else 'ok'
    if res['status'].isupper():
        fn, line = c08_fuzz.innermost_tlslite_frame(exc)
        phase = 'in-handshake' if i2.get('resumed') is None else 'established'
        key = 'resumable-after-failure:%s:%s:%s:%s' % (kind, role, case['on'], phase)
        text = ('%s under test, %s: connection 2 (%s) failed with %s (%s), yet connection 3 %s the same session'
                % (role, kind, case['on'], type(exc).__name__, fail,
                   'resumed' if role == 'server' else 'offered (%s)' % res['third']['offered']))
        res['problems'].append((key, text, enforced(kind, role, case['on'])))
    return res


def gen_cases(rng, quick):
    out = []
    for kind in KINDS:
        for role in ('server', 'client'):
            for on in ('resumed', 'full'):
                fails = FAILURES if not quick else [FAILURES[0], FAILURES[1], rng.choice(FAILURES[2:])]
                for f in fails:
                    out.append(dict(kind=kind, role=role, on=on, fail=f, seed=rng.randrange(1 << 30)))
    return out


def worker(case):
    import traceback
    try:
        return c08_fuzz.with_watchdog(run_resume_case, case)
    except c08_fuzz.HangTimeout as e:
        fn, line = c08_fuzz.hang_frame(e)
        return dict(case=case, status='hang', problems=[('hang:%s:%s' % (fn, c08_fuzz._norm(line)), 'resumption scenario spins', True)])
    except Exception as e:  # noqa
        return dict(case=case, status='harness-error', error=traceback.format_exc(), problems=[])
