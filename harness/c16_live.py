"""C16 live executor: runs one operation history on a real tlslite-ng client/server pair
(loop.Pair, generator API, one thread), observes it passively, and evaluates the property's
direct oracle.  Used from multiprocessing workers by harness/props/C16.py.

Nothing in /repo is patched: plaintext records are logged by a pass-through wrapper around
RecordLayer.sendRecord, padding randomness is fixed by assigning tlslite.messages.getRandomBytes,
and the *deviating peer* (post-handshake-auth client that lies) is a wrapper around the peer's
_handle_pha / _sendMsgs."""
import hashlib
import hmac
import random

import loop
from loop import Pair, run_gen, classify, creds, settings, DetRandom

PAD = 0xA5
CLIENT_CHAIN_ID = 7
SUITES = {'aes128gcm': 'sha256', 'aes256gcm': 'sha384', 'chacha20-poly1305': 'sha256'}


# ---------------------------------------------------------------------------------------
# independent HKDF-Expand-Label (RFC 8446 7.1) for outputs of at most one hash block
def hkdf_expand_label(secret, label, context, length, alg):
    full = b'tls13 ' + label
    info = bytes([length >> 8, length & 0xff, len(full)]) + full + bytes([len(context)]) + context
    out = hmac.new(bytes(secret), info + b'\x01', getattr(hashlib, alg)).digest()
    assert length <= len(out)
    return out[:length]


def next_secret(secret, alg):
    return hkdf_expand_label(secret, b'traffic upd', b'', len(secret), alg)


class Chain(object):
    """secret_0, secret_1, ... ; index(secret) -> n or None"""

    def __init__(self, s0, alg):
        self.alg = alg
        self.v = [bytes(s0)]

    def index(self, s, limit=400):
        s = bytes(s)
        for n, x in enumerate(self.v):
            if x == s:
                return n
        while len(self.v) < limit:
            self.v.append(next_secret(self.v[-1], self.alg))
            if self.v[-1] == s:
                return len(self.v) - 1
        return None


# ---------------------------------------------------------------------------------------
def code_of(outcome):
    k = classify(outcome)
    if k[0] == 'ok':
        return 0
    if k[0] == 'LocalAlert':
        return 100 + k[1]
    if k[0] == 'RemoteAlert':
        return 1000 + k[1]
    if k[0] == 'Closed':
        return 3000
    if k[0] == 'TLSError':
        return 2000
    if k[0] == 'Other' and k[1] in ('ValueError', 'TLSIllegalParameterException', 'TLSInternalError'):
        return 2000
    return 9000


def describe(outcome):
    k = classify(outcome)
    return ':'.join(str(x) for x in k)


class Live(object):
    def __init__(self, cfg):
        self.cfg = cfg
        from tlslite import messages as tmsg
        self.rnd = DetRandom(cfg['seed']).install()
        tmsg.getRandomBytes = lambda n: bytearray([PAD]) * n
        ver = tuple(cfg['ver'])
        self.v13 = ver == (3, 4)
        # TLS 1.3 runs offer (3,3)..(3,4): since f81c02a a 1.3-only client with the default curve list
        # (legacy brainpool groups) is refused by the server's ClientHello check (not a C16 matter)
        minver = (3, 3) if self.v13 else ver
        self.hb = {True: [], False: []}          # payloads handed to the callbacks (client, server)
        self.p = Pair()
        cch, ckey = creds(cfg.get('ccred', 'client-rsa'))
        sch, skey = creds('rsa')
        cs = settings(minv=minver, maxv=ver, use_heartbeat_extension=cfg['c_hb'],
                      heartbeat_response_callback=(lambda m: self.hb[True].append(bytes(m.payload))) if cfg['c_cb'] and cfg['c_hb'] else None,
                      cipherNames=[cfg['cipher']])
        ss = settings(minv=minver, maxv=ver, use_heartbeat_extension=cfg['s_hb'],
                      heartbeat_response_callback=(lambda m: self.hb[False].append(bytes(m.payload))) if cfg['s_cb'] and cfg['s_hb'] else None,
                      cipherNames=[cfg['cipher']])
        if cfg.get('c_rsl'):
            cs.record_size_limit = cfg['c_rsl']      # RFC 8449: limits what the SERVER may send
        if cfg.get('s_rsl'):
            ss.record_size_limit = cfg['s_rsl']
        if cfg['nst'] >= 0:
            ss.ticketKeys = [bytearray(range(32))]
            ss.ticket_count = cfg['nst']
        self.ssettings = ss
        ckw = dict(settings=cs)
        if cfg['c_cert']:
            ckw.update(certChain=cch, privateKey=ckey)
        self.client_chain = cch
        r = self.p.handshake(client_kw=ckw, server_kw=dict(certChain=sch, privateKey=skey, settings=ss))
        if r != (('ok', None), ('ok', None)):
            raise RuntimeError('handshake failed: %r' % (r,))
        self.c, self.s = self.p.client, self.p.server
        if tuple(self.c.version) != ver or tuple(self.s.version) != ver:
            raise RuntimeError('negotiated %r/%r instead of %r' % (self.c.version, self.s.version, ver))
        self.s.client_cert_required = bool(cfg['cert_required'])
        self.c.recordSize = cfg['recsize']
        self.s.recordSize = cfg['recsize']
        self.log = []                            # plaintext records of the current operation
        for conn in (self.c, self.s):
            self._tap(conn)
        self.ctxmap = {b'': 0}
        self.n_ctx = 0
        self.dev = 0
        self.first_ctx = None
        self.last_req = -1
        self.captured = None
        self._wrap_dev_client()
        if self.v13:
            alg = SUITES[cfg['cipher']]
            self.alg = alg
            assert bytes(self.c.session.cl_app_secret) == bytes(self.s.session.cl_app_secret)
            assert bytes(self.c.session.sr_app_secret) == bytes(self.s.session.sr_app_secret)
            self.ch_cl = Chain(self.c.session.cl_app_secret, alg)
            self.ch_sr = Chain(self.c.session.sr_app_secret, alg)
        self.nst_inflight = cfg['nst'] if (self.v13 and cfg['nst'] > 0) else 0

    def conn(self, a):
        return self.c if a else self.s

    # -- model configuration read off the endpoints after the handshake
    def model_cfg(self, a):
        x = self.conn(a)
        return dict(is_cl=a, hb_sup=bool(x.heartbeat_supported), hb_recv=bool(x.heartbeat_can_receive),
                    hb_send=bool(x.heartbeat_can_send), hb_cb=x.heartbeat_response_callback is not None,
                    pha_key=bool(a and x._client_keypair), pha_sup=bool((not a) and x._pha_supported),
                    cert_required=bool((not a) and x.client_cert_required), my_chain=CLIENT_CHAIN_ID if a else 0,
                    recsize=x.recordSize, dev=0)

    # -- passive tap on the record layer
    def _tap(self, conn):
        orig = conn._recordLayer.sendRecord
        log = self.log

        def send_record(msg):
            log.append((conn is self.c, msg.contentType, bytes(msg.write())))
            return orig(msg)
        conn._recordLayer.sendRecord = send_record

    # -- the deviating post-handshake-auth client (peer wrapper; the server is under test)
    def _wrap_dev_client(self):
        c = self.c
        live = self
        orig_handle = c._handle_pha
        orig_send = c._sendMsgs

        def ctx_bytes(n):
            b = hashlib.sha256(b'ctx%d' % n).digest()
            live.ctxmap[b] = n
            return b

        def handle_pha(cert_request):
            real = bytes(cert_request.certificate_request_context)
            live.last_req = live.ctxmap.get(real, -1)
            if live.first_ctx is None:
                live.first_ctx = real
            d = live.dev
            if d == 6:
                return empty_chain(cert_request)
            return orig_handle(cert_request)

        def empty_chain(cert_request):
            from tlslite.messages import Certificate, Finished
            from tlslite.constants import CertificateType, CipherSuite
            from tlslite.utils.cryptomath import HKDF_expand_label, secureHMAC
            from tlslite.x509certchain import X509CertChain
            hc = c._first_handshake_hashes.copy()
            hc.update(cert_request.write())
            prf, size = ('sha384', 48) if c.session.cipherSuite in CipherSuite.sha384PrfSuites else ('sha256', 32)
            cert = Certificate(CertificateType.x509, (3, 4)).create(X509CertChain([]), cert_request.certificate_request_context)
            hc.update(cert.write())
            fk = HKDF_expand_label(c.session.cl_app_secret, b'finished', b'', size, prf)
            fin = Finished((3, 4), size).create(secureHMAC(fk, hc.digest(prf), prf))
            for r in orig_send([cert, fin]):
                yield r

        def send_msgs(msgs):
            from tlslite.messages import Certificate
            from tlslite.constants import CertificateType
            d = live.dev
            if msgs and isinstance(msgs[0], Certificate) and len(msgs) == 3 and live.captured is None:
                # remember the first answer (only usable for a verbatim replay if it was honest)
                live.captured = (list(msgs), d == 0 and bytes(msgs[0].certificate_request_context) == bytes(live.first_ctx))
            if d and msgs and isinstance(msgs[0], Certificate) and len(msgs) == 3:
                cert, cv, fin = msgs
                real = bytes(cert.certificate_request_context)
                if d in (3, 5) or (d == 4 and bytes(live.first_ctx) != real):
                    # (a CompressedCertificate is serialised at creation: rebuild as a plain Certificate)
                    cert = Certificate(CertificateType.x509, (3, 4)).create(cert.cert_chain, bytearray(real))
                    msgs = [cert, cv, fin]
                if d == 1:
                    cv.signature = bytearray(cv.signature)
                    cv.signature[len(cv.signature) // 2] ^= 0x10
                elif d == 2:
                    fin.verify_data = bytearray(fin.verify_data)
                    fin.verify_data[-1] ^= 0x01
                elif d == 3:
                    cert.certificate_request_context = bytearray(ctx_bytes(live.ctxmap[real] + 1000))
                elif d == 4 and bytes(live.first_ctx) != real:
                    cert.certificate_request_context = bytearray(live.first_ctx)
                elif d == 5:
                    cert.certificate_request_context = bytearray(b'')
                elif d == 7:
                    from tlslite.messages import Message, KeyUpdate
                    msgs = [cert, cv, Message(22, bytearray(fin.write()) + bytearray(KeyUpdate().create(0).write()))]
            return orig_send(msgs)
        c._handle_pha = handle_pha
        c._sendMsgs = send_msgs
        self.replay_send = orig_send
        self.ctx_bytes = ctx_bytes

    # -- observation helpers
    def gens(self):
        if not self.v13:
            return [0, 0, 0, 0]
        c, s = self.c.session, self.s.session
        out = [self.ch_cl.index(c.cl_app_secret), self.ch_sr.index(c.sr_app_secret),
               self.ch_sr.index(s.sr_app_secret), self.ch_cl.index(s.cl_app_secret)]
        return [-1 if x is None else x for x in out]

    def record_keys_ok(self):
        """the record layer's actual nonces are the ones derived from the session's current secrets"""
        if not self.v13:
            return True
        ok = True
        for conn, wsec, rsec in ((self.c, self.c.session.cl_app_secret, self.c.session.sr_app_secret),
                                 (self.s, self.s.session.sr_app_secret, self.s.session.cl_app_secret)):
            if conn.closed:
                continue
            rl = conn._recordLayer
            ok &= bytes(rl._writeState.fixedNonce) == hkdf_expand_label(wsec, b'iv', b'', 12, self.alg)
            ok &= bytes(rl._readState.fixedNonce) == hkdf_expand_label(rsec, b'iv', b'', 12, self.alg)
        return ok

    def abstract_records(self, entries):
        """plaintext records of one operation -> [(code, [ints])] in the model's msg_code encoding"""
        out = []
        hs = bytearray()

        def parse_hs(final):
            """complete handshake messages in the buffer; a KeyUpdate / Finished that is followed, in the
            SAME record, by further handshake bytes is a record-alignment violation: the whole record
            is one abstract (25, [v]) / (26, [ok])"""
            while len(hs) >= 4:
                n = (hs[1] << 16) | (hs[2] << 8) | hs[3]
                if len(hs) < 4 + n:
                    break
                body = bytes(hs[4:4 + n])
                t = hs[0]
                del hs[:4 + n]
                m = self.abstract_hs(t, body)
                if hs and self.v13 and m[0] in (24, 20):
                    out.append((25 if m[0] == 24 else 26, m[1]))
                    del hs[:]
                else:
                    out.append(m)
            if final and hs:
                out.append((98, list(hs)))
                del hs[:]

        def flush_hs():
            parse_hs(True)
        for (_, ct, data) in entries:
            if ct == 22:
                hs.extend(data)
                parse_hs(False)          # (record by record: alignment is a per-record matter)
                continue
            flush_hs()
            if ct == 23:
                out.append((23, list(data)))
            elif ct == 24:
                out.append((21, list(data)))
            elif ct == 21:
                out.append((2, [data[0], data[1]]))
            else:
                out.append((97, [ct]))
        flush_hs()
        return out

    def abstract_hs(self, t, body):
        if t == 24 and not self.v13:
            return (99, [])                          # the "unexpected handshake message" injected in TLS <= 1.2
        if t == 24:
            return (24, [body[0]] if len(body) == 1 else [-1])
        if t == 4:
            return (4, [])
        if t == 13:
            from tlslite.messages import CertificateRequest
            from tlslite.utils.codec import Parser
            from tlslite.constants import ExtensionType
            cr = CertificateRequest((3, 4)).parse(Parser(bytearray(len(body).to_bytes(3, 'big') + body)))
            ctx = bytes(cr.certificate_request_context)
            if ctx not in self.ctxmap:
                self.n_ctx += 1
                self.ctxmap[ctx] = self.n_ctx
            ext = cr.getExtension(ExtensionType.compress_certificate)
            wf = 0 if (ext is not None and not ext.algorithms) else 1
            return (13, [self.ctxmap[ctx], wf])
        if t == 25:                                  # CompressedCertificate (RFC 8879)
            algo = int.from_bytes(body[0:2], 'big')
            comp = body[8:]
            if algo == 1:
                import zlib
                body = zlib.decompress(comp)
            elif algo == 2:
                import brotli
                body = brotli.decompress(comp)
            else:
                import zstandard
                body = zstandard.ZstdDecompressor().decompress(comp)
            t = 11
        if t == 11:
            n = body[0]
            ctx = bytes(body[1:1 + n])
            clen = int.from_bytes(body[1 + n:4 + n], 'big')
            return (11, [self.ctxmap.get(ctx, -1), CLIENT_CHAIN_ID if clen else 0])
        if t == 15:
            return (15, [self.cv_ok])
        if t == 20:
            return (20, [self.fin_ok])
        return (99, [])

    # -- operations
    def read(self, conn, mx):
        g = conn.readAsync(max=(mx if mx > 0 else None), min=0)
        try:
            for r in g:
                if r in (0, 1) and not isinstance(r, (bytes, bytearray)):
                    if r == 0:
                        g.close()
                        return 1, b'', 'block'
                    continue
                return 0, bytes(r), 'ok'
        except Exception as e:  # noqa
            oc = ('exc', e)
            return code_of(oc), b'', describe(oc)
        return 9000, b'', 'generator ended without a value'

    def split_keyupdate(self, conn, v, k):
        """a (legal) peer that spreads one KeyUpdate over two records, then changes its write keys"""
        from tlslite.messages import Message, KeyUpdate
        raw = bytearray(KeyUpdate().create(v).write())
        for part in (raw[:k], raw[k:]):
            for r in conn._sendMsg(Message(22, part), update_hashes=False):
                yield r
        conn.session.cl_app_secret, conn.session.sr_app_secret = conn._recordLayer.calcTLS1_3KeyUpdate_reciever(
            conn.session.cipherSuite, conn.session.cl_app_secret, conn.session.sr_app_secret)

    def gen_op(self, g):
        oc = run_gen(g)
        return code_of(oc), b'', describe(oc)

    def inject_msg(self, m):
        """abstract message -> real message object sent with the peer's _sendMsg"""
        from tlslite import messages as M
        from tlslite.constants import CertificateType
        kind = m[0]
        if kind == 'MKU':
            v = m[1]
            if v < 0:
                return M.Message(22, bytearray([24, 0, 0, 2, 0, 0]))
            return M.KeyUpdate().create(v)
        if kind == 'MHB':
            return M.Message(24, bytearray(m[1]))
        if kind == 'MNST':
            return M.NewSessionTicket().create(3600, 1, bytearray(b'n'), bytearray(b'ticket' * 4), [])
        if kind == 'MCertReq':
            return M.CertificateRequest((3, 4)).create(context=bytearray(self.ctx_bytes(m[1])), sig_algs=[(8, 4), (4, 1)],
                                                       extensions=[])
        if kind == 'MCert':
            from tlslite.x509certchain import X509CertChain
            ch = self.client_chain if m[2] else X509CertChain([])
            ctx = b'' if m[1] == 0 else self.ctx_for(m[1])
            return M.Certificate(CertificateType.x509, (3, 4)).create(ch, bytearray(ctx))
        if kind == 'MCV':
            return M.CertificateVerify((3, 4)).create(bytearray(b'\x01' * 64), (8, 4))
        if kind == 'MFin':
            return M.Finished((3, 4), 32).create(bytearray(b'\x02' * 32))
        if kind in ('MKUx', 'MFinx'):
            # a KeyUpdate / Finished followed, in the same record, by a whole message or by the first
            # fragment of one
            first = bytes(M.KeyUpdate().create(m[1]).write()) if kind == 'MKUx' else \
                bytes(M.Finished((3, 4), 32).create(bytearray(b'\x02' * 32)).write())
            nst = bytes(M.NewSessionTicket().create(3600, 1, bytearray(b'n'), bytearray(b'ticket' * 4), []).write())
            tail = {'nst': nst, 'ku': bytes(M.KeyUpdate().create(0).write()), 'frag': nst[:3], 'frag1': nst[:1],
                    'certreq': bytes(M.CertificateRequest((3, 4)).create(context=bytearray(b'c' * 32), sig_algs=[(8, 4)],
                                                                         extensions=[]).write())}[m[2]]
            return M.Message(22, bytearray(first + tail))
        if kind == 'MUnexp':
            if self.v13:
                return M.Message(22, bytearray([14, 0, 0, 0]))           # ServerHelloDone
            return M.Message(22, bytearray([24, 0, 0, 1, 0]))            # a KeyUpdate in TLS <= 1.2
        raise ValueError(kind)

    def inject_fits(self, a, m):
        """an injected record must go out as ONE record of the injecting side (its _sendMsg would fragment
        a longer one, and a record above the peer's record_size_limit is a different violation)"""
        return len(self.inject_msg(m).write()) <= self.conn(a).recordSize

    def ctx_for(self, n):
        for b, k in self.ctxmap.items():
            if k == n:
                return b
        return self.ctx_bytes(n)

    def do(self, a, op):
        """execute one operation; returns observation dict"""
        conn = self.conn(a)
        del self.log[:]
        k = op[0]
        self.cv_ok, self.fin_ok = 1, 1
        if k == 'ORead':
            # what the deviating client will claim in this step (for the record abstraction)
            code, data, desc = self.read(conn, op[1])
        elif k == 'OWrite':
            code, data, desc = self.gen_op(conn.writeAsync(bytes(op[1])))
        elif k == 'OKeyUpdate' and len(op) > 2 and op[2]:
            code, data, desc = self.gen_op(self.split_keyupdate(conn, 1 if op[1] else 0, op[2]))
        elif k == 'OKeyUpdate':
            code, data, desc = self.gen_op(conn.send_keyupdate_request(1 if op[1] else 0))
        elif k == 'ORequestAuth':
            try:
                st = None if op[-1] else settings(certificate_compression_receive=[])
                code, data, desc = self.gen_op(conn.request_post_handshake_auth(st))
            except Exception as e:  # noqa  (not a generator error: raised when the generator starts)
                code, data, desc = code_of(('exc', e)), b'', describe(('exc', e))
        elif k == 'OHeartbeat':
            code, data, desc = self.gen_op(conn.write_heartbeat(bytearray(op[1]), op[2]))
        elif k == 'OTickets':
            st = self.ssettings.validate()
            st.ticket_count = op[1]
            code, data, desc = self.gen_op(conn._serverSendTickets(st))
        elif k == 'OClose':
            code, data, desc = self.gen_op(conn.closeAsync())
        elif k == 'OSetRecSize':
            conn.recordSize = op[1]
            code, data, desc = 0, b'', 'ok'
        elif k == 'OSetDev':
            self.dev = op[1]
            code, data, desc = 0, b'', 'ok'
        elif k == 'OReplayPha':
            code, data, desc = self.gen_op(self.replay_send(self.captured[0]))
        elif k == 'OInject':
            code, data, desc = self.gen_op(conn._sendMsg(self.inject_msg(op[1]), update_hashes=False))
        else:
            raise ValueError(k)
        mine = [e for e in self.log if e[0] == a]
        other = [e for e in self.log if e[0] != a]
        # the honesty flags of a PHA reply sent in this step
        if self.dev and any(ct == 22 and d[:1] in (b'\x0b', b'\x19') for (_, ct, d) in mine):
            # the request being answered is the most recent CertificateRequest the client read
            same = (self.dev in (1, 2, 6, 7)) or (self.dev == 4 and self.ctxmap.get(self.first_ctx) == self.last_req)
            self.cv_ok = 1 if (same and self.dev != 1) else 0
            self.fin_ok = 1 if (same and self.dev != 2) else 0
        if k == 'OInject' and op[1][0] == 'MCV':
            self.cv_ok = int(bool(op[1][1]))
        if k == 'OInject' and op[1][0] in ('MFin', 'MFinx'):
            self.fin_ok = int(bool(op[1][1]))
        recs = self.abstract_records(mine)
        return dict(code=code, data=data, desc=desc, recs=recs, gens=self.gens(), foreign=len(other),
                    keys_ok=self.record_keys_ok(), rs_eff=conn.recordSize,
                    raw_hb=[bytes(d) for (_, ct, d) in mine if ct == 24])

    def final(self):
        chain = self.s.session.clientCertChain
        ch = 0
        if chain is not None and chain.getNumCerts() > 0:
            ch = CLIENT_CHAIN_ID if bytes(chain.x509List[0].bytes) == bytes(self.client_chain.x509List[0].bytes) else 99
        return dict(tickets=len(self.c.tickets), chain=ch, pending=len(self.s._cert_requests),
                    hb_c=[list(x) for x in self.hb[True]], hb_s=[list(x) for x in self.hb[False]],
                    closed_c=bool(self.c.closed), closed_s=bool(self.s.closed),
                    srv_tickets=len(self.s.tickets))

    def cleanup(self):
        self.rnd.uninstall()
