"""C17 helpers: a transport whose failures are persistent (FSock), handshake flavours,
reference-run instrumentation (on a separate reference endpoint, never on the endpoint under
test), live execution of handshake-fault cases and of data-phase event scripts, the translation
of what happened into events of coq/Model/C17_Lifecycle.v, and the direct property oracle."""
import errno
import os
import socket

import loop
from loop import MemSock, classify, creds, settings, DetRandom, FakeClock
from tlslite.api import TLSConnection
from tlslite.messages import Alert, Message
from tlslite.constants import ContentType
from tlslite import errors as tlserr

EBADF = errno.EBADF
ERRS = {'eof': 'eof', 'reset': errno.ECONNRESET, 'pipe': errno.EPIPE}


class FSock(MemSock):
    """MemSock with realistic failure semantics.

    * a scripted fault (MemSock.fault: kind/index/err) kills the transport for good:
      recv fault  -> bytes not yet handed out are lost, every later recv gives EOF / errno,
                     every later send EPIPE (after EOF) or the same errno;
      send fault  -> every later send fails with the errno, recv hands out what had already
                     arrived and then EOF (after EPIPE) or the errno.
    * kill_rx()/kill_tx() do the same from an event script (arrived bytes stay readable).
    * after close(): send -> EBADF; recv hands out what had arrived, then EBADF.
    * rchunk / schunk: at most that many bytes per recv / send call (more I/O call indices).
    The peer of a dead transport sees EOF once it has drained what was in flight."""

    def __init__(self, name):
        MemSock.__init__(self, name)
        self.dead_rx = None
        self.dead_tx = None
        self.rchunk = None
        self.schunk = None
        self.on_kill = None
        self.kill_info = None

    def _kill(self, kind, err, clear):
        if kind == 'recv':
            self.dead_rx = err
            self.dead_tx = errno.EPIPE if err == 'eof' else err
            if clear:
                del self.inbuf[:]
        else:
            self.dead_tx = err
            self.dead_rx = 'eof' if err == errno.EPIPE else err
        if self.peer is not None:
            self.peer.peer_closed = True
        self.kill_info = (kind, err)
        if self.on_kill is not None:
            self.on_kill(kind, err)

    def kill_rx(self, err):
        if self.dead_rx is None:
            self.dead_rx = err
            self.peer.peer_closed = True

    def kill_tx(self, err):
        if self.dead_tx is None:
            self.dead_tx = err

    def recv(self, n):
        if self.dead_rx is None and not self.closed:
            err = self._check_fault('recv')
            if err is not None:
                self._kill('recv', err, True)
        self.n_recv += 1
        self.n_io += 1
        if self.inbuf:
            k = n if self.rchunk is None else max(1, min(n, self.rchunk))
            out = bytes(self.inbuf[:k])
            del self.inbuf[:k]
            return out
        if self.closed:
            raise socket.error(EBADF, os.strerror(EBADF))
        if self.dead_rx == 'eof':
            return b''
        if self.dead_rx is not None:
            raise socket.error(self.dead_rx, os.strerror(self.dead_rx))
        if self.peer_closed:
            return b''
        raise socket.error(errno.EWOULDBLOCK, 'no data')

    def send(self, data):
        if self.closed:
            raise socket.error(EBADF, os.strerror(EBADF))
        if self.dead_tx is None:
            err = self._check_fault('send')
            if err is not None:
                self._kill('send', errno.EPIPE if err == 'eof' else err, False)
        self.n_send += 1
        self.n_io += 1
        if self.dead_tx is not None:
            raise socket.error(self.dead_tx, os.strerror(self.dead_tx))
        data = bytes(data)
        k = len(data) if self.schunk is None else max(1, min(len(data), self.schunk))
        chunk = data[:k]
        self.sent_log.append(chunk)
        if not self.peer.closed and self.peer.dead_rx is None:
            self.peer.inbuf += chunk
        return k


def fpair():
    a, b = FSock('c2s'), FSock('s2c')
    a.peer, b.peer = b, a
    return a, b


# ------------------------------------------------------------------------------------------
# handshake flavours
V = {'ssl3': (3, 0), 'tls10': (3, 1), 'tls11': (3, 2), 'tls12': (3, 3), 'tls13': (3, 4)}
_VDB = {}


def vdb():
    if 'db' not in _VDB:
        _VDB['db'] = loop.make_verifier_db()
    return _VDB['db']


def flavours():
    """name -> dict(ver, kex, opts).  Every name is a handshake that completes without a fault."""
    out = []
    for vn in ('ssl3', 'tls10', 'tls11', 'tls12'):
        out.append((vn + '-rsa', dict(ver=vn, kex='rsa')))
        out.append((vn + '-dhe', dict(ver=vn, kex='dhe_rsa')))
        out.append((vn + '-resume', dict(ver=vn, kex='rsa', resume=True)))
        out.append((vn + '-clientauth', dict(ver=vn, kex='dhe_rsa', clientauth=True)))
        out.append((vn + '-srp', dict(ver=vn, kex='srp_sha', srp=True)))
        out.append((vn + '-anon', dict(ver=vn, kex='dh_anon', anon=True)))
    for vn in ('tls10', 'tls11', 'tls12'):
        out.append((vn + '-ecdhe', dict(ver=vn, kex='ecdhe_rsa')))
        out.append((vn + '-ecdsa', dict(ver=vn, kex='ecdhe_ecdsa', cred='ecdsa')))
        out.append((vn + '-ecanon', dict(ver=vn, kex='ecdh_anon', anon=True)))
    out.append(('tls12-ticket', dict(ver='tls12', kex='ecdhe_rsa', tickets=True)))
    out.append(('tls12-ticket-resume', dict(ver='tls12', kex='ecdhe_rsa', tickets=True, resume=True)))
    out.append(('tls13-ecdhe', dict(ver='tls13', kex='ecdhe_rsa')))
    out.append(('tls13-dhe', dict(ver='tls13', kex='dhe_rsa', groups=['ffdhe2048'])))
    out.append(('tls13-ecdsa', dict(ver='tls13', kex='ecdhe_ecdsa', cred='ecdsa')))
    out.append(('tls13-clientauth', dict(ver='tls13', kex='ecdhe_rsa', clientauth=True)))
    out.append(('tls13-pha', dict(ver='tls13', kex='ecdhe_rsa', pha=True)))     # client ready for post-handshake auth
    out.append(('tls13-ticket', dict(ver='tls13', kex='ecdhe_rsa', tickets=True)))
    out.append(('tls13-ticket-resume', dict(ver='tls13', kex='ecdhe_rsa', tickets=True, resume=True)))
    return out


FLAVOURS = dict(flavours())
TICKET_KEY = bytearray(range(32))


def _settings(fl, server):
    v = V[fl['ver']]
    kw = {}
    if fl['ver'] != 'tls13':
        kw['keyExchangeNames'] = [fl['kex']]
    else:
        kw['keyExchangeNames'] = [fl['kex'], 'ecdhe_rsa', 'dhe_rsa', 'ecdhe_ecdsa']
        if fl.get('groups'):
            kw['keyShares'] = fl['groups']
            kw['dhGroups'] = fl['groups']
            kw['eccCurves'] = []
    if server and fl.get('tickets'):
        kw['ticketKeys'] = [TICKET_KEY]
    if fl['ver'] == 'ssl3':
        kw['cipherNames'] = ['aes128', 'aes256', '3des']
    kw['heartbeat_response_callback'] = _hb_callback     # both sides may send heartbeat requests
    return settings(minv=v, maxv=v, **kw)


def _hb_callback(msg):
    return None


class Endpoints(object):
    """client/server TLSConnections over an FSock pair, for one flavour"""

    def __init__(self, fl):
        self.fl = fl
        self.csock, self.ssock = fpair()
        self.client = TLSConnection(self.csock)
        self.server = TLSConnection(self.ssock)
        self.cache = None

    def hs_gens(self, session=None, cache=None):
        fl = self.fl
        ckw = dict(settings=_settings(fl, False))
        skw = dict(settings=_settings(fl, True))
        if session is not None:
            ckw['session'] = session
        if cache is not None:
            skw['sessionCache'] = cache
        if fl.get('srp'):
            skw['verifierDB'] = vdb()
            cg = self.client.handshakeClientSRP(bytearray(b'test'), bytearray(b'password'), async_=True, **ckw)
        elif fl.get('anon'):
            skw['anon'] = True
            cg = self.client.handshakeClientAnonymous(async_=True, **ckw)
        else:
            chain, key = creds(fl.get('cred', 'rsa'))
            skw['certChain'], skw['privateKey'] = chain, key
            if fl.get('clientauth') or fl.get('pha'):
                cc, ck = creds('client-rsa')
                ckw['certChain'], ckw['privateKey'] = cc, ck
                if fl.get('clientauth'):
                    skw['reqCert'] = True
            cg = self.client.handshakeClientCert(async_=True, **ckw)
        sg = self.server.handshakeServerAsync(**skw)
        return cg, sg


def step_gen(g):
    """one next(); returns ('yield', v) | ('ok', None) | ('exc', e)"""
    try:
        return ('yield', next(g))
    except StopIteration:
        return ('ok', None)
    except Exception as e:  # noqa
        return ('exc', e)


def run_two(ga, gb, sa, sb, eager_b=False, max_steps=200000):
    """Drive generator ga (endpoint under test, socket sa) and gb (peer).  Lockstep by default;
    eager_b: the peer runs until it blocks before every step of ga.  Returns (res_a, res_b);
    a generator that can make no progress is left suspended: result ('blocked', None)."""
    res = {'a': None, 'b': None}
    gens = {'a': ga, 'b': gb}
    idle = 0

    def one(k):
        r = step_gen(gens[k])
        if r[0] != 'yield':
            res[k] = r
            return True
        return r[1] not in (0, 1) or isinstance(r[1], (bytes, bytearray))

    for _ in range(max_steps):
        prog = False
        if res['b'] is None and gb is not None:
            if eager_b:
                for _ in range(10000):
                    if res['b'] is not None:
                        break
                    before = (len(sa.inbuf), len(sb.inbuf), sb.n_io)
                    p = one('b')
                    prog = prog or p
                    if res['b'] is None and not p and not sb.inbuf and (len(sa.inbuf), len(sb.inbuf)) == before[:2]:
                        break
            else:
                before = (len(sa.inbuf), len(sb.inbuf))
                prog = one('b') or (len(sa.inbuf), len(sb.inbuf)) != before or prog
        if res['a'] is None and ga is not None:
            before = (len(sa.inbuf), len(sb.inbuf))
            prog = one('a') or (len(sa.inbuf), len(sb.inbuf)) != before or prog
        if (res['a'] is not None or ga is None) and (res['b'] is not None or gb is None):
            break
        idle = 0 if prog else idle + 1
        if idle > 50:
            break
    return (res['a'] or ('blocked', None)), (res['b'] or ('blocked', None))


def run_one(g, sock, max_steps=100000):
    """Drive one generator until it finishes, raises, delivers a value, or asks for input that
    is not there (abandoned: the generator is closed).  Returns (kind, value)."""
    val = None
    for _ in range(max_steps):
        r = step_gen(g)
        if r[0] == 'ok':
            return ('ok', val)
        if r[0] == 'exc':
            return r
        v = r[1]
        if isinstance(v, (bytes, bytearray)) or v not in (0, 1):
            val = v
            continue
        if v == 0 and not sock.inbuf:
            g.close()
            return ('blocked', None)
    g.close()
    return ('blocked', 'steps')


# ------------------------------------------------------------------------------------------
# peer send log -> model items
def parse_items(ct, payload, tls13, post=None):
    """one record sent by the peer -> list of model items (as text-free tuples).
    post: None while the handshake runs; afterwards dict(hb=<the endpoint under test answers heartbeat
    requests>, pha=<it is a TLS 1.3 client prepared for post-handshake authentication>)"""
    payload = bytes(payload)
    if post is not None:
        if ct == ContentType.heartbeat and payload[:1] == b'\x01':
            return [('ctl', 'HbReq %s' % ('true' if post['hb'] else 'false'))]
        if ct == ContentType.handshake and tls13 and payload[:1] == b'\x18' and len(payload) == 5:
            return [('ctl', 'KuReq' if payload[4] == 1 else 'KuNoReq')]
        if ct == ContentType.handshake and tls13 and payload[:1] == b'\x0d':
            return [('ctl', 'PhaReq %s' % ('true' if post['pha'] else 'false'))]
    if ct == ContentType.application_data:
        return [('data', payload)]
    if ct == ContentType.alert:
        return [('alert', payload[0], payload[1])] if len(payload) >= 2 else [('hs', False)]
    if ct == ContentType.change_cipher_spec and tls13:
        return []          # middlebox-compatibility CCS: skipped inside _getMsg, never a message
    if ct == ContentType.handshake:
        out, i = [], 0
        while i + 4 <= len(payload):
            ty = payload[i]
            ln = int.from_bytes(payload[i + 1:i + 4], 'big')
            out.append(('hs', bool(tls13 and ty == 4)))
            i += 4 + ln
        return out or [('hs', False)]
    return [('hs', False)]


class PeerStops(Exception):
    """raised inside the (deviating) peer after it has sent its scripted alert"""


class SendLog(object):
    """observes the records an endpoint (the PEER) sends: wraps _recordLayer.sendRecord.
    inject=(n, level, desc): instead of its n-th record the peer sends that alert and stops."""

    def __init__(self, conn, inject=None):
        self.conn = conn
        self.records = []      # (contentType, payload)
        self.injected = False
        inner = conn._recordLayer.sendRecord

        def wrapped(msg):
            if inject is not None and not self.injected and len(self.records) == inject[0]:
                self.injected = True
                al = Alert().create(inject[2], inject[1])
                self.records.append((al.contentType, bytes(al.write())))

                def gen():
                    for x in inner(al):
                        yield x
                    conn.sock.flush()
                    raise PeerStops()
                return gen()
            self.records.append((msg.contentType, bytes(msg.write())))
            return inner(msg)
        conn._recordLayer.sendRecord = wrapped

    def items(self, tls13, upto=None):
        out = []
        for ct, pl in self.records[:upto]:
            out += parse_items(ct, pl, tls13)
        return out


class RefTrace(object):
    """Instrumentation of the REFERENCE endpoint (a separate fault-free run with the same
    deterministic inputs): the ordered handshake steps with the socket call counters."""

    def __init__(self, conn, sock):
        self.conn, self.sock = conn, sock
        self.steps = []          # dicts: kind, ct, r (n_recv at return), a,b (send call range)
        self.bufw = False
        self.sess = None
        inner_get = conn._getMsg
        inner_send = conn._recordLayer.sendRecord
        inner_flush = conn.sock.flush
        inner_done = conn._handshakeDone
        tr = self

        def pre():
            if conn.session is not tr.sess:
                tr.sess = conn.session
                if tr.sess is not None:
                    tr.steps.append(dict(kind='sess', r=bool(tr.sess.resumable)))
            b = bool(conn.sock.buffer_writes)
            if b and not tr.bufw:
                tr.steps.append(dict(kind='bufon'))
            tr.bufw = b

        def get(*a, **kw):
            pre()
            for r in inner_get(*a, **kw):
                if r in (0, 1):
                    yield r
                else:
                    tr.steps.append(dict(kind='recv', r=sock.n_recv))
                    yield r

        def send(msg):
            pre()
            st = dict(kind='send', ct=int(msg.contentType), a=sock.n_send, buffered=bool(conn.sock.buffer_writes))
            tr.steps.append(st)
            for r in inner_send(msg):
                yield r
            st['b'] = sock.n_send

        def flush():
            pre()
            st = dict(kind='flush', a=sock.n_send)
            tr.steps.append(st)
            try:
                return inner_flush()
            finally:
                st['b'] = sock.n_send
                tr.bufw = False      # every flush in the handshake code is followed by buffer_writes = False

        inner_fa = getattr(conn.sock, 'flush_async', None)     # generator variant of flush (newer trees)

        def flush_async():
            pre()
            st = dict(kind='flush', a=sock.n_send)
            tr.steps.append(st)
            try:
                for r in inner_fa():
                    yield r
            finally:
                st['b'] = sock.n_send
                tr.bufw = False

        def done(resumed):
            pre()
            tr.steps.append(dict(kind='done'))
            return inner_done(resumed)
        if inner_fa is not None:
            conn.sock.flush_async = flush_async
        conn._getMsg = get
        conn._recordLayer.sendRecord = send
        conn.sock.flush = flush
        conn._handshakeDone = done


def hstep_lit(st):
    k = st['kind']
    if k == 'recv':
        return 'UHs HRecv'
    if k == 'send':
        return 'UHs (HSend %d)' % st['ct']
    if k == 'bufon':
        return 'UHs HBufOn'
    if k == 'flush':
        return 'UHs HFlushOff'
    if k == 'sess':
        return 'UHs (HSetSess %s)' % ('true' if st['r'] else 'false')
    if k == 'done':
        return 'UHs HDone'
    raise ValueError(k)


def item_lit(it):
    if it[0] == 'data':
        return '(IData [%s])' % ';'.join(str(b) for b in it[1])
    if it[0] == 'alert':
        return '(IAlert %d %d)' % (it[1], it[2])
    if it[0] == 'ctl':
        return '(ICtl (%s))' % it[1]
    return '(IHs %s)' % ('true' if it[1] else 'false')


def exn_lit(c):
    """loop.classify tuple -> Gallina outcome"""
    k = c[0]
    if k == 'SockError':
        return '(OExc (XSock %d))' % c[1]
    if k == 'AbruptClose':
        return '(OExc XAbrupt)'
    if k == 'Closed':
        return '(OExc XClosed)'
    if k == 'RemoteAlert':
        return '(OExc (XRemote %d))' % c[1]
    if k == 'LocalAlert':
        return '(OExc (XLocal %d))' % c[1]
    if k == 'Other' and c[1] == 'ValueError':
        return '(OExc XValue)'
    return '(OExc (XSock (-1)))'      # something the model never produces: forces a mismatch


def sess_lit(conn):
    if conn.session is None:
        return 'None'
    return '(Some %s)' % ('true' if conn.session.resumable else 'false')


def fault_events(kind, err):
    """FSock._kill semantics as model events"""
    if kind == 'recv':
        if err == 'eof':
            return ['NEof', 'NSendBreak 0 %d' % errno.EPIPE]
        return ['NReset %d' % err, 'NSendBreak 0 %d' % err]
    if err == 'eof':
        err = errno.EPIPE
    if err == errno.EPIPE:
        return ['NSendBreak 0 %d' % err, 'NEof']
    return ['NSendBreak 0 %d' % err, 'NReset %d' % err]


def drain_wire(peer, psock):
    """What the endpoint under test put on the wire, as decrypted by the (live) peer:
    list of ('data', bytes) | ('alert', l, d) | ('hs', ct).  Peer-side only."""
    out = []
    for _ in range(1000):
        g = peer._recordLayer.recvRecord()
        rec = None
        for _ in range(100000):
            r = step_gen(g)
            if r[0] != 'yield':
                return out
            v = r[1]
            if isinstance(v, tuple):
                rec = v
                break
            if v == 0 and not psock.inbuf:
                g.close()
                return out
        if rec is None:
            return out
        hdr, p = rec
        pl = bytes(p.bytes[p.index:])
        if hdr.type == ContentType.handshake and pl[:1] == b'\x18' and peer.version == (3, 4) and peer.session is not None:
            # the endpoint under test updated its write keys: follow, as readAsync would
            peer.session.cl_app_secret, peer.session.sr_app_secret = peer._recordLayer.calcTLS1_3KeyUpdate_sender(
                peer.session.cipherSuite, peer.session.cl_app_secret, peer.session.sr_app_secret)
        if hdr.type == ContentType.application_data:
            out.append(('data', pl))
        elif hdr.type == ContentType.alert and len(pl) >= 2:
            out.append(('alert', pl[0], pl[1]))
        else:
            out.append(('hs', int(hdr.type)))
    return out


def wire_lit(w):
    if w[0] == 'data':
        return '(WData [%s])' % ';'.join(str(b) for b in w[1])
    if w[0] == 'alert':
        return '(WAlert %d %d)' % (w[1], w[2])
    return '(WHs %d)' % w[1]


# ------------------------------------------------------------------------------------------
DET = {}


def det_install(seed):
    if 'r' not in DET:
        DET['r'] = DetRandom(seed).install()
        DET['c'] = FakeClock().install()
    DET['r'].r.seed(seed)


def count_records(stream, upto):
    """number of complete TLS records within stream[:upto]"""
    n, i = 0, 0
    while i + 5 <= upto:
        ln = (stream[i + 3] << 8) | stream[i + 4]
        if i + 5 + ln > upto:
            break
        i += 5 + ln
        n += 1
    return n


def prior_session(fl, seed):
    """For resumption flavours: a completed earlier connection -> (client session, server cache)"""
    from tlslite.api import SessionCache
    det_install(seed)
    ep = Endpoints(fl)
    cache = SessionCache()
    cg, sg = ep.hs_gens(cache=cache)
    ra, rb = run_two(cg, sg, ep.csock, ep.ssock)
    if ra[0] != 'ok' or rb[0] != 'ok':
        raise RuntimeError('prior handshake failed: %r %r' % (ra, rb))
    # move a little data both ways so that a TLS 1.3 client has read its tickets
    run_one(ep.server.writeAsync(b'hi'), ep.ssock)
    run_one(ep.client.readAsync(2, 2), ep.csock)
    run_one(ep.client.closeAsync(), ep.csock)
    run_one(ep.server.readAsync(1, 1), ep.ssock)
    return ep, ep.client.session, cache


def make_case_endpoints(fl, seed):
    sess = cache = None
    prior = None
    if fl.get('resume'):
        ep1, sess, cache = prior_session(fl, seed + 7)
        prior = (ep1, sess, cache)
    det_install(seed)
    ep = Endpoints(fl)
    ep.prior = prior
    cg, sg = ep.hs_gens(session=sess, cache=cache)
    return ep, cg, sg


def shared_session_followup(fl, prior, side, seed):
    """After something happened on a RESUMED connection of the endpoint under test (`side`): is the
    session still resumable on the object that side would resume from?  Returns dict:
      first_view  : resumable flag seen through the FIRST connection's .session (same session)
      lookup      : server: SessionCache lookup by session ID gives a usable session (None: no ID);
                    client: the session object handed to the handshake is still valid()
      resumed_id  : a follow-up connection offering the session (by ID only when the side under
                    test is the server and the session has an ID) was resumed (None: not run)
      resumed_any : a follow-up offering everything the client has (tickets / PSK included) was resumed"""
    ep1, sess, cache = prior
    out = dict(first_view=None, lookup=None, resumed_id=None, resumed_any=None)
    a1 = ep1.client if side == 'client' else ep1.server
    out['first_view'] = bool(a1.session.resumable) if a1.session is not None else None
    sid = bytes(sess.sessionID) if sess.sessionID else b''
    if side == 'server':
        if sid:
            try:
                cache[bytearray(sid)]
                out['lookup'] = True
            except KeyError:
                out['lookup'] = False
    else:
        out['lookup'] = bool(sess.valid())

    def attempt(offer):
        det_install(seed + 99)
        ep3 = Endpoints(fl)
        cg, sg = ep3.hs_gens(session=offer, cache=cache)
        ra, rb = run_two(cg, sg, ep3.csock, ep3.ssock)
        if ra[0] != 'ok' or rb[0] != 'ok':
            return ('failed', classify(ra) if ra[0] == 'exc' else ra[0], classify(rb) if rb[0] == 'exc' else rb[0])
        return bool(ep3.client.resumed)
    if side == 'server':
        # the peer does not play by the rules: it offers the session again whatever happened
        if sid and fl['ver'] != 'tls13':
            offer = sess._clone()
            offer.resumable = True
            offer.tickets = None
            offer.tls_1_0_tickets = None
            out['resumed_id'] = attempt(offer)
        offer = sess._clone()
        offer.resumable = True
        out['resumed_any'] = attempt(offer)
    else:
        out['resumed_id'] = attempt(sess)      # the client's own object: must not be offered if invalid
    return out


_REF = {}


def reference_script(flname, side, seed=1):
    """abstract step sequence of the fault-free handshake of `side` (cached per process)"""
    key = (flname, side)
    if key in _REF:
        return _REF[key]
    fl = FLAVOURS[flname]
    ep, cg, sg = make_case_endpoints(fl, seed)
    conn, sock = (ep.client, ep.csock) if side == 'client' else (ep.server, ep.ssock)
    tr = RefTrace(conn, sock)
    ra, rb = run_two(cg, sg, ep.csock, ep.ssock)
    if ra[0] != 'ok' or rb[0] != 'ok':
        raise RuntimeError('reference handshake %s failed: %r %r' % (flname, ra, rb))
    want_resumed = bool(fl.get('resume'))
    if bool(ep.client.resumed) != want_resumed:      # (a TLS 1.3 server never sets .resumed)
        raise RuntimeError('reference handshake %s: resumed=%r' % (flname, conn.resumed))
    info = dict(steps=tr.steps, n_recv=sock.n_recv, n_send=sock.n_send)
    _REF[key] = info
    return info


def hs_events(steps, n_items, items, fault, n_sent_before_fault):
    """Model events for a handshake of the endpoint under test.
    steps: reference step sequence; items: model items the peer's records amount to, of which
    the first n_items arrived before a recv fault (all of `items` otherwise); fault: None or
    (kind, err); n_sent_before_fault: complete records the endpoint had put on the wire."""
    ev = ['UHsStart']
    used = 0
    sent = 0          # records handed to the socket so far
    queued = 0
    fired = fault is None

    def fire():
        out = []
        if fault[0] == 'send':
            # everything the peer had sent by then is readable (look-for-alert path)
            nonlocal used
            while used < len(items):
                out.append('NIn %s' % item_lit(items[used]))
                used += 1
        return out + fault_events(*fault)
    for st in steps:
        k = st['kind']
        if k == 'recv':
            if used < n_items:
                ev.append('NIn %s' % item_lit(items[used]))
                used += 1
            elif not fired and fault[0] == 'recv':
                ev += fire()
                fired = True
        elif k == 'send':
            if st['buffered']:
                queued += 1
            else:
                if not fired and fault[0] == 'send' and sent + 1 > n_sent_before_fault:
                    ev += fire()
                    fired = True
                sent += 1
        elif k == 'flush':
            if queued:
                if not fired and fault[0] == 'send' and sent + queued > n_sent_before_fault:
                    ev += fire()
                    fired = True
                sent += queued
                queued = 0
        ev.append(hstep_lit(st))
    return ev, fired


def hs_result_lit(res):
    if res[0] == 'ok':
        return 'OHsDone'
    if res[0] == 'blocked':
        return 'OBlocked'
    return exn_lit(classify(res))


def op_result_lit(res, op):
    if res[0] == 'ok':
        if op == 'read':
            return '(ORet [%s])' % ';'.join(str(b) for b in (res[1] or b''))
        return 'ODone'
    if res[0] == 'blocked':
        return 'OBlocked'
    return exn_lit(classify(res))


def init_lit(conn_flags, tls13, split, recsz=16384):
    return '(init %s %s %s %s %d)' % tuple(
        ['true' if conn_flags[0] else 'false', 'true' if conn_flags[1] else 'false',
         'true' if tls13 else 'false', 'true' if split else 'false', recsz])


def is_split(conn):
    """1/n-1 record splitting active (CBC in SSLv3 / TLS 1.0)"""
    return bool(conn.version <= (3, 1) and conn._recordLayer.isCBCMode())


DOCUMENTED_FAULT = ('SockError', 'AbruptClose')


def run_hs_fault_case(case):
    """case: dict(fl, side, ign, csock, rchunk, schunk, eager, fkind, findex, ferr, seed)
    -> dict(lit=Gallina case literal, key, oracle=[(key, what)], info)"""
    fl = FLAVOURS[case['fl']]
    side = case['side']
    ref = reference_script(case['fl'], side)
    ep, cg, sg = make_case_endpoints(fl, case['seed'])
    if side == 'client':
        A, asock, ag, P, psock, pg = ep.client, ep.csock, cg, ep.server, ep.ssock, sg
    else:
        A, asock, ag, P, psock, pg = ep.server, ep.ssock, sg, ep.client, ep.csock, cg
    A.ignoreAbruptClose = case['ign']
    A.closeSocket = case['csock']
    asock.rchunk, asock.schunk = case.get('rchunk'), case.get('schunk')
    plog = SendLog(P, inject=case.get('palert'))
    tls13 = fl['ver'] == 'tls13'
    if case.get('eager'):
        # the peer talks as early as it can: application data right after its handshake returns
        inner = pg

        def eager_peer():
            for x in inner:
                yield x
            for x in P.writeAsync(b'early-data'):
                yield x
        pg = eager_peer()
    if case['ferr'] is not None:
        asock.fault = dict(kind=case['fkind'], index=case['findex'], err=ERRS[case['ferr']])
    ki = {}

    def on_kill(kind, err):
        ki['peer_sent'] = sum(len(c) for c in psock.sent_log)
        ki['own_sent'] = sum(len(c) for c in asock.sent_log)
    asock.on_kill = on_kill
    # _kill clears inbuf after on_kill has been called? -> record the unread length first
    orig_kill = asock._kill

    def kill(kind, err, clear):
        ki['inbuf'] = len(asock.inbuf)
        orig_kill(kind, err, clear)
    asock._kill = kill
    ra, rb = run_two(ag, pg, asock, psock, eager_b=bool(case.get('eager')))
    hs_closed, hs_sess = A.closed, sess_lit(A)
    sess_obj = A.session
    sess_res = bool(sess_obj.resumable) if sess_obj is not None else None     # right after the handshake call
    triggered = asock.kill_info is not None
    if not triggered:
        asock.fault = None       # the index lies beyond this handshake's I/O: no fault in this case
    pstream = b''.join(psock.sent_log)
    ostream = b''.join(asock.sent_log)
    all_items = plog.items(tls13)
    if triggered:
        kind, err = asock.kill_info
        if kind == 'recv':
            nrec = count_records(pstream, ki['peer_sent'] - ki['inbuf'])
            items = plog.items(tls13, upto=nrec)
            n_items = len(items)
        else:
            nrec = count_records(pstream, ki['peer_sent'])
            items = plog.items(tls13, upto=nrec)
            n_items = len(items)
        n_sent = count_records(ostream, ki['own_sent'])
        events, fired = hs_events(ref['steps'], n_items, items, (kind, err), n_sent)
    else:
        items = all_items
        events, fired = hs_events(ref['steps'], len(items), items, None, 0)
        # items the handshake did not consume arrive afterwards (tickets, early data)
        used = sum(1 for e in events if e.startswith('NIn'))
        events += ['NIn %s' % item_lit(i) for i in items[used:]]
    split = is_split(A) if not A.closed else False
    # subsequent behaviour of the endpoint under test
    post = []
    r1 = run_one(A.readAsync(5, 1), asock)
    post.append(op_result_lit(r1, 'read'))
    events.append('URead (Some 5) 1')
    closed_before_write = A.closed
    r2 = run_one(A.writeAsync(b'xy'), asock)
    post.append(op_result_lit(r2, 'write'))
    events.append('UWrite [120;121]')
    expected = [hs_result_lit(ra)] + post
    lit = '(%s, [%s], [%s], %s, %s, %s, %s, %s)' % (
        init_lit((case['ign'], case['csock']), tls13, split), ';'.join(events), ';'.join(expected),
        'true' if hs_closed else 'false', hs_sess, 'true' if A.closed else 'false', sess_lit(A),
        'true' if asock.closed else 'false')
    # ---- the property itself (independent of the model)
    viol = []
    ca = classify(ra) if ra[0] == 'exc' else (ra[0],)
    site = '%s:%s:%s' % (fl['ver'], side, 'recv' if (triggered and asock.kill_info[0] == 'recv') else 'send')
    if triggered:
        peer_alert = any(i[0] == 'alert' for i in all_items)
        if ra[0] == 'ok':
            viol.append(('fault-swallowed:handshake-complete:' + site,
                         'transport failed (%s) during the handshake but the handshake call returned normally '
                         '(closed=%r, socket closed=%r, session.resumable=%r)'
                         % (asock.kill_info, hs_closed, asock.closed, sess_res)))
        elif ra[0] == 'blocked':
            viol.append(('fault-hangs:' + site, 'transport failed but the handshake call neither raised nor returned'))
        elif ca[0] not in DOCUMENTED_FAULT and not (ca[0] == 'RemoteAlert' and peer_alert):
            viol.append(('fault-wrong-exception:%s:%s' % (ca[0], site),
                         'transport failed during the handshake; the call raised %r, not a socket/abrupt-close error' % (ca,)))
        if ra[0] != 'ok':
            if not hs_closed:
                viol.append(('fault-not-closed:' + site, 'connection not closed after a transport failure in the handshake'))
            if sess_res:
                viol.append(('fault-session-resumable:' + site, 'session left resumable after a mid-handshake transport failure'))
    elif case.get('palert') and plog.injected:
        al = case['palert']
        if ra[0] == 'exc':
            if ca != ('RemoteAlert', al[2]):
                viol.append(('alert-not-surfaced:%s:%d' % (site, al[2]),
                             'the peer sent alert (%d,%d) during the handshake; the call raised %r' % (al[1], al[2], ca)))
            if not hs_closed:
                viol.append(('alert-not-closed:' + site, 'connection not closed after an alert in the handshake'))
            if sess_res and al[2] != 0:
                viol.append(('resumable-after-alert-in-handshake:%s' % site,
                             'session left resumable after alert (%d,%d) received during the handshake' % (al[1], al[2])))
        elif ra[0] == 'blocked':
            viol.append(('alert-hangs:' + site, 'handshake neither raised nor returned after the peer\'s alert'))
    else:
        if ra[0] != 'ok':
            viol.append(('nofault-handshake-failed:' + site, 'no fault triggered but the handshake failed: %r' % (ca,)))
    if closed_before_write and not (r2[0] == 'exc' and classify(r2)[0] == 'Closed'):
        viol.append(('write-on-closed-not-closed-error:' + site, 'write on a closed connection raised %r' % (classify(r2),)))
    if hs_closed and r1[0] != 'ok':
        viol.append(('read-on-closed-raises:' + site, 'read on a closed connection did not return: %r' % (r1,)))
    for r in (ra, r1, r2):
        if r[0] == 'exc' and classify(r)[0] not in loop.DOCUMENTED:
            viol.append(('undocumented-exception:%s:%s' % (classify(r)[1], site), 'undocumented exception %r' % (classify(r),)))
    return dict(lit=lit, viol=viol, triggered=triggered, outcome=ca, step_kind=site, n_peer_records=len(plog.records),
                case=case, n_io=(asock.n_recv, asock.n_send), events=events, expected=expected)


# ------------------------------------------------------------------------------------------
# data-phase event scripts
def _peer_send(P, psock, what):
    from tlslite.messages import ApplicationData
    if what[0] == 'pdata':
        g = P.writeAsync(bytes(what[1]))
    elif what[0] == 'palert':
        g = P._sendMsg(Alert().create(what[2], what[1]))
    elif what[0] == 'pjunk':
        g = P._sendMsg(Message(ContentType.handshake, bytearray([14, 0, 0, 0])), update_hashes=False)
    elif what[0] == 'pempty':
        g = P._sendMsg(ApplicationData().create(bytearray(0)), randomizeFirstBlock=False)
    elif what[0] == 'pku':        # TLS 1.3 KeyUpdate, update_requested or not
        from tlslite.constants import KeyUpdateMessageType
        g = P.send_keyupdate_request(KeyUpdateMessageType.update_requested if what[1]
                                     else KeyUpdateMessageType.update_not_requested)
    elif what[0] == 'phb':        # heartbeat request (16 bytes of padding: well-formed)
        g = P.write_heartbeat(bytearray(b'ping'), 16)
    elif what[0] == 'ppha':       # TLS 1.3 server asks for post-handshake authentication
        g = P.request_post_handshake_auth()
    else:
        raise ValueError(what)
    r = run_one(g, psock)
    if r[0] != 'ok':
        raise RuntimeError('peer could not send %r: %r' % (what, r))


CONTROL_OPS = ('keyupdate', 'pha', 'heartbeat', 'pku', 'phb', 'ppha')


def peer_can(P, k):
    """can the (live) peer perform this post-handshake operation on this connection"""
    if k == 'pku':
        return P.version == (3, 4)
    if k == 'ppha':
        return P.version == (3, 4) and not P._client and bool(P._pha_supported)
    if k == 'phb':
        return bool(P.heartbeat_supported and P.heartbeat_can_send)
    return True


class _NoSock(object):
    def _decref_socketios(self):
        pass


def blocking_call(f):
    try:
        return ('ok', f())
    except Exception as e:  # noqa
        return ('exc', e)


def run_data_case(case, blocking=False):
    """case: dict(fl, side, ign, csock, recsz, script=[ops], seed).  Ops:
      peer/transport: ('pdata', bytes) ('palert', level, desc) ('pjunk',) ('pempty',)
                      ('trunc', bytes, keep) ('eof',) ('reset', errno) ('sendbreak', k, errno)
      endpoint under test: ('read', max|None, min) ('write', bytes) ('close',) ('makefile',)
                      ('setign', b) ('setcsock', b)
    Returns dict(lit, viol, outs, ...)."""
    fl = FLAVOURS[case['fl']]
    side = case['side']
    if any(op[0] in CONTROL_OPS for op in case['script']) and case.get('recsz', 16384) < 64:
        # KeyUpdate / CertificateRequest / heartbeat messages (sent by the call or as an answer from
        # inside read) are one record each in the model: no tiny recordSize in such scripts
        case = dict(case, recsz=16384)
    ref = reference_script(case['fl'], side)
    ep, cg, sg = make_case_endpoints(fl, case['seed'])
    if side == 'client':
        A, asock, ag, P, psock, pg = ep.client, ep.csock, cg, ep.server, ep.ssock, sg
    else:
        A, asock, ag, P, psock, pg = ep.server, ep.ssock, sg, ep.client, ep.csock, cg
    A.ignoreAbruptClose = case['ign']
    A.closeSocket = case['csock']
    plog = SendLog(P)
    # (for resumption flavours ep.prior holds the first connection, the client session and the cache)
    tls13 = fl['ver'] == 'tls13'
    ra, rb = run_two(ag, pg, asock, psock)
    if ra[0] != 'ok' or rb[0] != 'ok':
        raise RuntimeError('handshake failed in data case: %r %r' % (ra, rb))
    A.recordSize = case.get('recsz', 16384)
    items = plog.items(tls13)
    events, _ = hs_events(ref['steps'], len(items), items, None, 0)
    used = sum(1 for e in events if e.startswith('NIn'))
    events += ['NIn %s' % item_lit(i) for i in items[used:]]
    expected = ['OHsDone']
    split = is_split(A)
    n_logged = len(plog.records)
    viol = []
    site = '%s:%s' % (fl['ver'], side)
    sess_obj = A.session
    was_res = bool(sess_obj.resumable)
    sent_alerts = []          # alerts the peer sent so far: (level, desc)
    eof_arrived = False
    orderly = False           # the endpoint has seen / performed an orderly close and nothing else since
    close_abandoned = False   # a closeAsync generator was abandoned while waiting for the peer (harness artefact)
    tainted = False           # some call raised or a non-orderly event ended the connection
    files = []
    outs = []
    tx_budget = [None]
    orig_send = asock.send

    def send(data):
        if tx_budget[0] is not None and asock.dead_tx is None:
            if tx_budget[0][0] <= 0:
                asock.kill_tx(tx_budget[0][1])
            else:
                tx_budget[0][0] -= 1
        return orig_send(data)
    asock.send = send
    # "orderly close by the peer": everything that arrived up to and including the first
    # close_notify is application data (or TLS 1.3 tickets) and the transport had not failed before
    clean_prefix = all(i[0] == 'data' or i == ('hs', True) for i in items[used:])
    cn_arrived = False
    waiting = list(items[used:])      # everything that arrived and that no read/close has looked at yet
    consumed_any = False
    for op in case['script']:
        k = op[0]
        if k in ('pku', 'phb', 'ppha') and not peer_can(P, k):
            continue              # not applicable to this flavour / side: the op is skipped
        if k in ('pdata', 'palert', 'pjunk', 'pempty', 'pku', 'phb', 'ppha'):
            live = asock.dead_rx is None and not asock.closed
            _peer_send(P, psock, op)
            new = plog.records[n_logged:]
            n_logged = len(plog.records)
            post = dict(hb=bool(A.heartbeat_supported and A.heartbeat_can_receive),
                        pha=bool(tls13 and side == 'client' and A._client_keypair))
            for ct, pl in new:
                for it in parse_items(ct, pl, tls13, post):
                    events.append('NIn %s' % item_lit(it))
                    if it[0] == 'alert' and live:
                        sent_alerts.append((it[1], it[2]))
                    if live:
                        waiting.append(it)
                    if live and not cn_arrived:
                        if it[0] == 'alert' and it[2] == 0:
                            cn_arrived = True
                        elif not (it[0] == 'data' or it == ('hs', True)):
                            clean_prefix = False
        elif k == 'trunc':
            before = len(asock.inbuf)
            live = asock.dead_rx is None and not asock.closed
            _peer_send(P, psock, ('pdata', op[1]))
            n_logged = len(plog.records)
            if live:
                got = len(asock.inbuf) - before
                cut = max(1, got - op[2])
                del asock.inbuf[len(asock.inbuf) - cut:]
            asock.kill_rx('eof')
            events.append('NEof')
            eof_arrived = True
            clean_prefix = clean_prefix and cn_arrived
        elif k == 'eof':
            asock.kill_rx('eof')
            events.append('NEof')
            eof_arrived = True
            clean_prefix = clean_prefix and cn_arrived
        elif k == 'reset':
            asock.kill_rx(op[1])
            events.append('NReset %d' % op[1])
            clean_prefix = clean_prefix and cn_arrived
        elif k == 'sendbreak':
            if tx_budget[0] is None:
                tx_budget[0] = [op[1], op[2]]
            events.append('NSendBreak %d %d' % (op[1], op[2]))
        elif k == 'setign':
            A.ignoreAbruptClose = op[1]
            events.append('USetIgn %s' % ('true' if op[1] else 'false'))
        elif k == 'setcsock':
            A.closeSocket = op[1]
            events.append('USetCsock %s' % ('true' if op[1] else 'false'))
        elif k == 'makefile':
            files.append(A.makefile('rb'))
            events.append('UMakefile')
        elif k in ('read', 'write', 'close', 'keyupdate', 'pha', 'heartbeat'):
            closed_before = A.closed
            buffered = bytes(A.sock._read_buffer) + bytes(asock.inbuf)
            pending = 'pending' if count_records(buffered, len(buffered)) else 'nothing-pending'   # a whole record is waiting
            usage = False
            if k in ('keyupdate', 'pha', 'heartbeat'):
                from tlslite.constants import KeyUpdateMessageType
                if k == 'keyupdate':
                    g = A.send_keyupdate_request(KeyUpdateMessageType.update_not_requested)
                    events.append('UKeyUpdate')
                elif k == 'pha':
                    okp = bool(side == 'server' and tls13 and A._pha_supported)
                    g = A.request_post_handshake_auth()
                    events.append('UPha %s' % ('true' if okp else 'false'))
                else:
                    okh = bool(A.heartbeat_supported and A.heartbeat_can_send)
                    g = A.write_heartbeat(bytearray(b'ping'), 16)
                    events.append('UHeartbeat %s' % ('true' if okh else 'false'))
                r = blocking_call(lambda: [None for _ in g] and None) if blocking else run_one(g, asock)
                if r[0] == 'exc' and isinstance(r[1], (ValueError, tlserr.TLSInternalError, tlserr.TLSIllegalParameterException)):
                    usage = True          # caller error raised before anything is sent
            elif k == 'read':
                mx, mn = op[1], op[2]
                r = blocking_call(lambda: A.read(mx, mn)) if blocking else run_one(A.readAsync(mx, mn), asock)
                events.append('URead %s %d' % ('None' if mx is None else '(Some %d)' % mx, mn))
            elif k == 'write':
                r = blocking_call(lambda: A.write(bytes(op[1]))) if blocking else run_one(A.writeAsync(bytes(op[1])), asock)
                events.append('UWrite [%s]' % ';'.join(str(b) for b in op[1]))
            else:
                r = blocking_call(A.close) if blocking else run_one(A.closeAsync(), asock)
                events.append('UClose')
            lit = '(OExc XValue)' if usage else op_result_lit(r, k)
            expected.append(lit)
            outs.append(lit)
            c = classify(r) if r[0] == 'exc' else (r[0],)
            now_res = bool(sess_obj.resumable)
            # ---- the property, statement by statement
            if r[0] == 'exc' and not usage:
                if c[0] not in loop.DOCUMENTED:
                    viol.append(('undocumented-exception:%s:%s' % (c[1], site), '%s raised %r' % (k, c)))
                if not A.closed:
                    tail = (':' + pending) if k in ('keyupdate', 'pha', 'heartbeat') else ''
                    viol.append(('not-closed-after-exception:%s:%s%s' % (k, c[0], tail),
                                 '%s raised %r but the connection is not closed (closed=False, session.resumable=%r; '
                                 '%s in the receive buffers when it was called)' % (k, c, now_res, pending)))
            if (k in ('keyupdate', 'pha') and not usage and not closed_before and not consumed_any and waiting
                    and waiting[0][0] == 'alert' and waiting[0][1] == 2 and waiting[0][2] != 0
                    and r[0] == 'exc' and c[0] in ('SockError', 'AbruptClose')):
                # nothing has been read since the handshake, the first thing waiting is a fatal alert of the
                # peer, and the send of this handshake-type message failed: the alert is the explanation
                viol.append(('alert-not-surfaced:%s:%s' % (k, site),
                             '%s failed with %r although the fatal alert %r of the peer was the next record waiting: '
                             'a fatal alert received from the peer must be surfaced as TLSRemoteAlert'
                             % (k, c, tuple(waiting[0][1:]))))
            if k in ('read', 'close') or (r[0] == 'exc' and not usage):
                consumed_any = True
            if k == 'read' and not closed_before and cn_arrived and clean_prefix:
                # the peer ended the stream properly: data, close_notify (whatever happened to the transport afterwards)
                if r[0] == 'exc':
                    viol.append(('orderly-close-reported-as-failure:%s:%s' % (c[0], site),
                                 'the peer sent only application data and then close_notify, yet read raised %r '
                                 '(closed=%r, session.resumable=%r)' % (c, A.closed, now_res)))
                elif r[0] == 'ok' and A.closed and was_res and not now_res:
                    viol.append(('orderly-close-invalidates-session:read:' + site,
                                 'the peer closed in an orderly way; read returned %r but session.resumable was switched off' % (r[1],)))
            if now_res and not was_res:
                viol.append(('resumable-switched-on:%s' % k, 'session.resumable went from False to True during %s' % k))
            if k == 'read':
                if closed_before and r[0] != 'ok':
                    viol.append(('read-on-closed-raises:' + site, 'read on a closed connection: %r' % (c,)))
                if not closed_before and r[0] == 'ok' and A.closed:
                    # the connection ended during this read and the read returned normally
                    got_cn = any(d == 0 for (_, d) in sent_alerts)
                    if not got_cn and not (A.ignoreAbruptClose and eof_arrived):
                        viol.append(('truncation-as-eof:' + site,
                                     'read returned %r normally and the connection is closed although no close_notify '
                                     'had arrived (ignoreAbruptClose=%r)' % (r[1], A.ignoreAbruptClose)))
                    if got_cn and cn_arrived and clean_prefix:
                        # orderly only when nothing before the close_notify required a send of ours (KeyUpdate
                        # update_requested, heartbeat / PHA request ...): then the only send that can fail is the
                        # courtesy close_notify reply.  A failed ANSWER to a control message is a genuine
                        # transport failure, raising / invalidating the session is what the property demands.
                        orderly = True
                if r[0] == 'exc' and c[0] == 'RemoteAlert':
                    if not any(d == c[1] for (_, d) in sent_alerts) or c[1] == 0:
                        viol.append(('remote-alert-invented:%d' % c[1], 'read raised RemoteAlert(%d) the peer never sent' % c[1]))
                    if now_res:
                        viol.append(('resumable-after-alert:%d' % c[1], 'session resumable after receiving alert %d' % c[1]))
                if r[0] == 'exc' and c[0] == 'AbruptClose' and A.ignoreAbruptClose:
                    viol.append(('abrupt-close-raised-despite-ignore:' + site, 'AbruptClose raised with ignoreAbruptClose set'))
            if k == 'write':
                if closed_before and not (r[0] == 'exc' and c[0] == 'Closed'):
                    viol.append(('write-on-closed-not-closed-error:' + site, 'write on a closed connection gave %r' % (c,)))
                if closed_before and orderly and not tainted and was_res and not now_res:
                    viol.append(('write-after-orderly-close-invalidates-session',
                                 'after an orderly close a write raised TLSClosedConnectionError (as documented) but also '
                                 'switched session.resumable off (ignoreAbruptClose=%r)' % A.ignoreAbruptClose))
            if k == 'close':
                if r[0] == 'blocked':
                    close_abandoned = True
                if r[0] == 'ok' and not A.closed and A._refCount <= 0 and not close_abandoned:
                    viol.append(('close-left-open:' + site, 'close() returned but the connection is still open'))
                if not closed_before and r[0] == 'ok' and A.closed and not tainted:
                    orderly = True
            if k in ('read', 'close') and orderly and not tainted and was_res and not now_res:
                viol.append(('orderly-close-invalidates-session:%s' % k, 'session.resumable switched off by %s after an orderly close' % k))
            if r[0] == 'exc' and not (k == 'write' and closed_before) and not usage:
                tainted = True
            was_res = now_res
        else:
            raise ValueError(op)
    for f in files:          # measurement is over: detach the file objects so that their finalizer
        f._sock = _NoSock()  # does not run a blocking close() on the connection
    wire = None
    if not blocking:
        w = [x for x in drain_wire(P, psock) if x[0] != 'hs']
        wire = w
    lit = '(%s, [%s], [%s], %s, %s, %s)' % (
        init_lit((case['ign'], case['csock']), tls13, split, case.get('recsz', 16384)), ';'.join(events),
        ';'.join(expected), 'true' if A.closed else 'false', sess_lit(A),
        'None' if wire is None else '(Some [%s])' % ';'.join(wire_lit(x) for x in wire))
    res = dict(lit=lit, viol=viol, outs=outs, case=case, blocked=any(o == 'OBlocked' for o in outs),
               final=(A.closed, sess_lit(A)))
    # ---- the connection was a RESUMED one: what about the session object it shares?
    if getattr(ep, 'prior', None) is not None and case.get('world') and not blocking:
        fu = shared_session_followup(fl, ep.prior, side, case['seed'])
        res['followup'] = fu
        shared = fl['ver'] != 'tls13'       # TLS 1.3 builds a fresh Session object per connection
        wev = []
        for e in events:
            if e.startswith('UHs (HSetSess'):
                wev.append('WAdopt 1 0' if shared else 'WNewSession 1')
            else:
                wev.append('WConn 1 (%s)' % e)
        wev.append('WLookup 0')
        lk = fu['lookup']
        if fu['resumed_id'] in (True, False) and lk is None:
            lk = fu['resumed_id']
        optb = lambda b: 'None' if b is None else '(Some %s)' % ('true' if b else 'false')
        res['wlit'] = ('(mkw [mkwc (init false true false false 16384) (Some 0%%nat); mkwc %s None] [true], [%s], [%s], %s, %s, %s, %s)'
                       % (init_lit((case['ign'], case['csock']), tls13, split, case.get('recsz', 16384)), ';'.join(wev),
                          ';'.join(expected), 'true' if A.closed else 'false', sess_lit(A), optb(fu['first_view']), optb(lk)))
        failed = sess_obj is not None and not sess_obj.resumable     # _shutdown(False) ran on this connection
        wsite = '%s:%s' % (fl['ver'], side)
        if shared and failed:
            if fu['lookup'] is True:
                viol.append(('session-resumable-after-failure-on-resumed-connection:lookup:' + wsite,
                             'a fatal failure on a resumed connection switched off only connection.session.resumable; '
                             'the object the %s would resume from is still usable (%s)'
                             % (side, 'SessionCache lookup by session ID succeeds' if side == 'server' else 'Session.valid()')))
            if fu['resumed_id'] is True:
                viol.append(('session-resumable-after-failure-on-resumed-connection:resumed-again:' + wsite,
                             'after a fatal failure on a resumed connection a follow-up connection offering the same '
                             'session %swas resumed' % ('ID ' if side == 'server' else '')))
            if fu['first_view'] is True:
                viol.append(('session-resumable-after-failure-on-resumed-connection:first-connection-view:' + wsite,
                             'the session seen through the first connection is still resumable'))
        if isinstance(fu['resumed_id'], tuple) or isinstance(fu['resumed_any'], tuple):
            viol.append(('followup-handshake-failed:' + wsite, 'follow-up handshake failed: %r' % (fu,)))
    return res


# ------------------------------------------------------------------------------------------
# script generators
DATA_FL = {'ssl3': 'ssl3-rsa', 'tls10': 'tls10-rsa', 'tls11': 'tls11-dhe', 'tls12': 'tls12-ecdhe', 'tls13': 'tls13-ecdhe'}
ALERTS = [(1, 0), (2, 0), (1, 90), (1, 100), (2, 20), (2, 40), (2, 80), (3, 47)]


def systematic_scripts(quick):
    """every placement of close_notify / warning / fatal alert relative to data, followed by each
    kind of transport end, read through by two reading plans, then write / read / close"""
    out = []
    chunks = [b'AAAA', b'BB']
    alerts = ALERTS[:5] if quick else ALERTS
    for al in [None] + alerts:
        for pos in range(3):
            if al is None and pos:
                continue
            for tail in (None, ('eof',), ('reset', errno.ECONNRESET), ('trunc', b'CCCCCC', 3)):
                for plan in (0, 1):
                    s = []
                    for i, c in enumerate(chunks):
                        if al is not None and pos == i:
                            s.append(('palert', al[0], al[1]))
                        s.append(('pdata', c))
                    if al is not None and pos == 2:
                        s.append(('palert', al[0], al[1]))
                    if tail:
                        s.append(tail)
                    if plan == 0:
                        s += [('read', None, 1)] * 4
                    else:
                        s += [('read', 3, 10), ('read', 100, 1)]
                    s += [('write', b'w'), ('read', None, 1), ('close',), ('read', 5, 1)]
                    out.append(s)
    return out


def send_fault_scripts():
    out = []
    for k in range(0, 5):
        for e in (errno.EPIPE, errno.ECONNRESET):
            out.append([('sendbreak', k, e), ('write', b'0123456789'), ('write', b'z'), ('read', None, 1), ('close',)])
            out.append([('pdata', b'qq'), ('sendbreak', k, e), ('close',), ('read', None, 1), ('write', b'z')])
            out.append([('sendbreak', k, e), ('palert', 1, 0), ('read', None, 1), ('write', b'z')])
            out.append([('sendbreak', k, e), ('palert', 1, 90), ('read', None, 1), ('read', None, 1)])
            out.append([('sendbreak', k, e), ('pjunk',), ('read', None, 1), ('close',)])
    return out


def close_wait_scripts():
    """closeSocket=False: close() waits for the peer's close_notify"""
    out = []
    for resp in ([('palert', 1, 0)], [('pdata', b'late'), ('palert', 1, 0)], [('palert', 2, 40)], [('palert', 1, 90)],
                 [('eof',)], [('reset', errno.ECONNRESET)], [('pjunk',)], [('pempty',), ('palert', 2, 0)], [],
                 [('pdata', b'x'), ('eof',)], [('pjunk',), ('sendbreak', 1, errno.EPIPE)]):
        out.append([('setcsock', False)] + list(resp) + [('close',), ('read', None, 1), ('write', b'w'), ('close',)])
        out.append([('setcsock', False), ('close',)] + list(resp) + [('close',), ('read', None, 1)])
        out.append([('setcsock', False), ('makefile',)] + list(resp) + [('close',), ('close',), ('read', None, 1), ('close',)])
    return out


SEND_ERRNOS = [errno.EPIPE, errno.ECONNRESET, errno.ECONNABORTED, errno.ETIMEDOUT, errno.ENOTCONN, errno.ESHUTDOWN, errno.EBADF]


def post_handshake_scripts(quick):
    """a transport failure at every send of every public post-handshake operation (KeyUpdate,
    post-handshake auth request, heartbeat request, write, close) and of every answer given from
    inside read (close_notify reply, warning reply, KeyUpdate answer, heartbeat answer, PHA answer),
    with nothing / data / a fatal alert / close_notify / a junk record waiting, for every errno"""
    out = []
    errs = SEND_ERRNOS[:3] if quick else SEND_ERRNOS
    waiting = [[], [('pdata', b'zz')], [('palert', 2, 80)], [('palert', 1, 0)], [('pjunk',)], [('pdata', b'y'), ('palert', 2, 40)]]
    for op in ('keyupdate', 'pha', 'heartbeat', 'write', 'close'):
        opx = (op, b'payload') if op == 'write' else (op,)
        for w in waiting:
            for e in errs:
                for k in (0, 1):
                    for rxend in ((), (('eof',),), (('reset', e),)):
                        if quick and (k == 1 or (rxend and rxend[0][0] == 'reset')) and e != errno.ECONNRESET:
                            continue
                        out.append(list(w) + [('sendbreak', k, e)] + list(rxend) + [opx, opx, ('read', None, 1), ('write', b'after')])
            out.append(list(w) + [opx, ('read', None, 1), opx, ('close',), opx])      # no fault: the calls themselves
    # answers given from inside read
    for trig in ([('palert', 1, 0)], [('pdata', b'last words'), ('palert', 1, 0)], [('palert', 2, 0)], [('palert', 1, 90)],
                 [('pku', True)], [('pku', False), ('pdata', b'k')], [('phb',)], [('phb',), ('pdata', b'h')], [('ppha',)],
                 [('pku', True), ('pku', True), ('pdata', b'kk'), ('palert', 1, 0)]):
        for e in SEND_ERRNOS:
            for k in (0, 1):
                for rxend in ((), (('eof',),)):
                    if quick and k == 1 and e not in (errno.ECONNRESET, errno.EPIPE):
                        continue
                    out.append([('sendbreak', k, e)] + list(trig) + list(rxend) +
                               [('read', None, 1), ('read', None, 1), ('read', None, 1), ('write', b'w')])
        out.append(list(trig) + [('read', None, 1), ('read', None, 1), ('keyupdate',), ('write', b'w'), ('close',)])
    return out


def random_script(rng):
    n = rng.randrange(3, 12)
    s = []
    for _ in range(n):
        x = rng.random()
        if x < 0.22:
            s.append(('pdata', bytes(rng.randrange(256) for _ in range(rng.choice([0, 1, 1, 2, 5, 9, 40])))))
        elif x < 0.34:
            s.append(('palert',) + rng.choice(ALERTS))
        elif x < 0.38:
            s.append(('pjunk',))
        elif x < 0.41:
            s.append(('pempty',))
        elif x < 0.47:
            s.append(('eof',))
        elif x < 0.51:
            s.append(('reset', rng.choice([errno.ECONNRESET, errno.ETIMEDOUT])))
        elif x < 0.54:
            s.append(('trunc', b'TTTTTTTT', rng.randrange(0, 12)))
        elif x < 0.60:
            s.append(('sendbreak', rng.randrange(0, 4), rng.choice(SEND_ERRNOS)))
        elif x < 0.78:
            s.append(('read', rng.choice([None, None, 0, 1, 3, 100]), rng.choice([0, 1, 1, 1, 4, 12])))
        elif x < 0.88:
            s.append(('write', bytes(rng.randrange(256) for _ in range(rng.choice([0, 1, 2, 7, 20])))))
        elif x < 0.94:
            s.append(('close',))
        elif x < 0.952:
            s.append(rng.choice([('keyupdate',), ('pha',), ('heartbeat',), ('pku', True), ('pku', False), ('phb',), ('ppha',)]))
        elif x < 0.96:
            s.append(('makefile',))
        elif x < 0.98:
            s.append(('setign', rng.random() < 0.5))
        else:
            s.append(('setcsock', rng.random() < 0.5))
    s += [('read', None, 1), ('write', b'e')]
    return s
