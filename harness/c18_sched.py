"""C18: deterministic thread scheduler for real Python threads.

Real `threading.Thread`s run real tlslite-ng code; exactly one of them runs at a time (a
token is passed through per-thread semaphores).  `sys.settrace` gives a hook before every
source line (or every bytecode instruction in opcode mode) executed in the traced files;
the schedule says at which global hook count the running thread is pre-empted and which
thread continues.  Callbacks on_point / on_switch let the harness move a fake clock forward between
pre-emption points and while a thread is descheduled.  The object's lock is replaced by a CoopLock with the semantics of
threading.Lock whose blocking acquire hands the token to the lock owner instead of
blocking the OS thread (otherwise a pre-empted owner could never be resumed).

Nothing in /repo is modified: the lock is an instance attribute of the shared object.
"""
import sys
import threading


class Deadlock(Exception):
    pass


class Sched(object):
    def __init__(self, nthreads, preempts=(), order=None, traced=(), opcode=False, max_steps=200000):
        self.n = nthreads
        self.preempts = sorted(preempts)
        self.pi = 0
        self.order = list(order) if order is not None else list(range(nthreads))
        self.traced = tuple(traced)
        self.opcode = opcode
        self.gates = [threading.Semaphore(0) for _ in range(nthreads)]
        self.done = [False] * nthreads
        self.blocked = [None] * nthreads
        self.errors = [None] * nthreads
        self.idents = {}
        self.step = 0
        self.max_steps = max_steps
        self.lock_order = []
        self.switches = []            # (step, from, to)
        self.main_gate = threading.Semaphore(0)
        self.deadlock = False
        self.failure = None
        self.on_point = None          # called at every hook (e.g. the fake clock moves on)
        self.on_switch = None         # called at every context switch (time passes while descheduled)

    # ---- identification
    def tid(self):
        return self.idents.get(threading.get_ident())

    # ---- tracing
    def _tracer(self, frame, event, arg):
        if event != 'call':
            return None
        fn = frame.f_code.co_filename
        if not fn.endswith(self.traced):
            return None
        if self.opcode:
            frame.f_trace_opcodes = True
            frame.f_trace_lines = False
        return self._local

    def _local(self, frame, event, arg):
        if event == ('opcode' if self.opcode else 'line'):
            self.point(self.tid())
        return self._local

    def point(self, i):
        self.step += 1
        if self.on_point is not None:
            self.on_point()
        if self.step > self.max_steps:
            raise Deadlock('step limit')
        if self.pi < len(self.preempts) and self.step >= self.preempts[self.pi][0]:
            target = self.preempts[self.pi][1]
            self.pi += 1
            self._handoff(i, prefer=target)

    # ---- token passing
    def _runnable(self, j):
        if self.done[j]:
            return False
        lk = self.blocked[j]
        return lk is None or not lk.held

    def _next(self, exclude):
        for j in self.order:
            if j != exclude and self._runnable(j):
                return j
        return None

    def _handoff(self, i, prefer=None, finished=False):
        j = None
        if prefer is not None and prefer != i and 0 <= prefer < self.n and self._runnable(prefer):
            j = prefer
        if j is None:
            j = self._next(i)
        if j is None:
            if not finished:
                return False            # nobody else can run: keep going
            rest = [k for k in self.order if not self.done[k]]
            if not rest:
                self.main_gate.release()
                return True
            self.deadlock = True        # the remaining threads wait for a lock nobody will release
            j = rest[0]
        self.switches.append((self.step, i, j))
        if self.on_switch is not None:
            self.on_switch()
        self.gates[j].release()
        if not finished:
            self.gates[i].acquire()
            if self.deadlock:
                raise Deadlock('lock never released')
        return True

    def block(self, i, lock):
        """thread i found the lock held"""
        self.blocked[i] = lock
        ok = self._handoff(i, prefer=lock.owner)
        self.blocked[i] = None
        if not ok and lock.held:
            self.deadlock = True
            raise Deadlock('lock held by a finished or blocked thread')

    # ---- running
    def _worker(self, i, body):
        self.gates[i].acquire()
        self.idents[threading.get_ident()] = i
        sys.settrace(self._tracer)
        try:
            if self.deadlock:
                raise Deadlock('lock never released')
            body()
        except BaseException as e:      # noqa
            self.errors[i] = e
        finally:
            sys.settrace(None)
            self.done[i] = True
            self._handoff(i, finished=True)

    def run(self, bodies, timeout=900):
        ths = [threading.Thread(target=self._worker, args=(i, b), daemon=True) for i, b in enumerate(bodies)]
        for t in ths:
            t.start()
        self.gates[self.order[0]].release()
        if not self.main_gate.acquire(timeout=timeout):
            self.failure = 'scheduler timeout (threads stuck)'
        for t in ths:
            t.join(timeout=5)
        return self


class CoopLock(object):
    """threading.Lock semantics; blocking hands the token to the owner."""

    def __init__(self):
        self.sched = None
        self.held = False
        self.owner = None

    def acquire(self, blocking=True, timeout=-1):
        s = self.sched
        i = s.tid() if s is not None else None
        if i is None:
            if self.held:
                raise Deadlock('acquire of a held lock outside a scheduled run')
            self.held = True
            self.owner = None
            return True
        while self.held:
            if not blocking:
                return False
            s.block(i, self)
        self.held = True
        self.owner = i
        s.lock_order.append(i)
        return True

    def release(self):
        if not self.held:
            raise RuntimeError('release unlocked lock')
        self.held = False
        self.owner = None

    def locked(self):
        return self.held

    def __enter__(self):
        self.acquire()
        return True

    def __exit__(self, *a):
        self.release()
