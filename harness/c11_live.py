"""C11 (live part): a server doing RSA key transport behaves identically on the wire for
every malformed encrypted premaster secret.

Two real TLSConnection endpoints (loop.Pair) are driven in lock step.  The CLIENT is the
deviating peer: the harness wraps the client's `_sendMsg` so that the ClientKeyExchange it
sends carries a ciphertext chosen by the harness (built with the PUBLIC key operation from a
chosen encoded message em, or a publicly invalid ciphertext).  Nothing on the server object
or in server-side code is wrapped or patched; the server is only observed through what it
writes to its (in-memory) socket, the exception its handshake generator ends with, and how
many client bytes it left unread.

Delivery of client data to the server is record-granular: everything the client writes is
held back by a tap on the client's MemSock and handed to the server ONE TLS RECORD AT A TIME;
after each record the server runs until it blocks, and whatever it wrote in that step is
attributed to that record.  This makes "at the same point" observable: an alert sent right
after ClientKeyExchange is distinguishable from one sent after the client's Finished, even
though the client writes ClientKeyExchange, ChangeCipherSpec and Finished back to back.

behaviour = ( tuple of server records written from the delivery of ClientKeyExchange on,
                each (trigger, content_type, (maj, min), length[, alert_level, alert_desc])
                where trigger = index of the client record (0 = ClientKeyExchange, 1 = CCS,
                2 = Finished, ...) whose delivery made the server write it, or 'eof',
              classify(server outcome),
              number of client bytes the server never consumed )

Oracle: for fixed (variant, seed) -- tlslite's randomness replaced by loop.DetRandom(seed) --
the behaviour is the same for every malformation class and equal to the behaviour for a
well-padded 48-byte premaster with the right version bytes but the wrong secret.

SSLv3 is negotiable in this tree (minVersion=(3,0) is accepted by HandshakeSettings), so it
is covered; should it stop being negotiable the group is reported as a harness problem
('honest handshake fails'), never silently skipped.
"""
import multiprocessing
import os
import random
import sys
import time

import loop
from tlslite.constants import CipherSuite, ContentType
from tlslite.messages import ClientHello, ClientKeyExchange

VERSION_NAMES = {(3, 0): 'SSL3.0', (3, 1): 'TLS1.0', (3, 2): 'TLS1.1', (3, 3): 'TLS1.2'}
BASELINE = 'wellformed-wrong-secret'

CLASSES = [
    BASELINE,
    'bad-first-byte',
    'bad-second-byte',
    'zero-in-first-8-ps',
    'no-separator',
    'separator-at-last-position',
    'wrong-version',
    'consistent-wrong-version',
    'len-47',
    'len-49',
    'len-0',
    'len-1',
    'len-2',
    'len-max',
    'all-zero-ciphertext',
    'ciphertext-one',
    'ciphertext-n-minus-1',
    'ciphertext-ge-n',
    'ciphertext-short',
    'ciphertext-long',
    'ciphertext-empty',
    'random-ciphertext',
]

# number of enumerated sub-instances per class (subseed s selects instance s % NSUB[cls];
# everything not enumerated is drawn from the per-case rng, so larger subseeds still vary)
NSUB = {
    BASELINE: 1,
    'bad-first-byte': 4,
    'bad-second-byte': 5,
    'zero-in-first-8-ps': 8,
    'no-separator': 2,
    'separator-at-last-position': 1,
    'wrong-version': 14,
    'consistent-wrong-version': 14,
    'len-47': 1,
    'len-49': 1,
    'len-0': 1,
    'len-1': 2,
    'len-2': 1,
    'len-max': 1,
    'all-zero-ciphertext': 1,
    'ciphertext-one': 1,
    'ciphertext-n-minus-1': 1,
    'ciphertext-ge-n': 4,
    'ciphertext-short': 5,
    'ciphertext-long': 4,
    'ciphertext-empty': 1,
    'random-ciphertext': 1,
}


# ------------------------------------------------------------------------------------------
# malformation classes: (k, n, e, client_version, rng) -> ciphertext bytes
def _rand(rng, m):
    return bytes(rng.randrange(256) for _ in range(m))


def _nz(rng, m):
    return bytes(rng.randrange(1, 256) for _ in range(m))


def _enc(em, k, n, e):
    """The public operation on a chosen encoded message."""
    assert len(em) == k, (len(em), k)
    m = int.from_bytes(em, 'big')
    assert m < n, 'encoded message not below the modulus'
    return pow(m, e, n).to_bytes(k, 'big')


def _pkcs(rng, k, msg):
    """Well-formed EME-PKCS1-v1_5 type 2 encoding of msg."""
    ps = k - 3 - len(msg)
    assert ps >= 8
    return b'\x00\x02' + _nz(rng, ps) + b'\x00' + bytes(msg)


def _good_pm(rng, cv):
    return bytes(cv) + _rand(rng, 46)


# every premaster version value (3,0)..(3,5) and a few outside; the two acceptable ones
# (ClientHello.client_version and the negotiated version) are removed per handshake
VERSION_SWEEP = [(3, 0), (3, 1), (3, 2), (3, 3), (3, 4), (3, 5), (2, 0), (4, 0), (0, 0), (3, 255), (2, 255)]


def wrong_versions(cv, nv):
    cand = VERSION_SWEEP + [(cv[1], cv[0]), (0xff, 0xff), (cv[0], cv[1] ^ 0x80), (cv[0] ^ 1, cv[1])]
    out = []
    for v in cand:
        if v != tuple(cv) and v != tuple(nv) and v not in out:
            out.append(v)
    return out


def make_ciphertext(cls, sub, k, n, e, cv, rng, nv=None):
    """Returns (ciphertext bytes, description).  cv = ClientHello.client_version, nv = negotiated
    version (the server tolerates either in the premaster, so 'wrong-version' avoids both)."""
    cv = tuple(cv)
    nv = tuple(nv or cv)
    sub = sub % NSUB[cls]
    top = n >> (8 * (k - 1))
    if cls == BASELINE:
        return _enc(_pkcs(rng, k, _good_pm(rng, cv)), k, n, e), 'well padded, right version, wrong secret'
    if cls == 'bad-first-byte':
        assert top >= 2
        x = [1, 2, top - 1, rng.randrange(1, top)][sub]
        em = bytearray(_pkcs(rng, k, _good_pm(rng, cv)))
        em[0] = x
        return _enc(bytes(em), k, n, e), 'em[0]=%d' % x
    if cls == 'bad-second-byte':
        x = [0, 1, 3, 0xff, rng.choice([b for b in range(256) if b != 2])][sub]
        em = bytearray(_pkcs(rng, k, _good_pm(rng, cv)))
        em[1] = x
        return _enc(bytes(em), k, n, e), 'em[1]=%d' % x
    if cls == 'zero-in-first-8-ps':
        pos = 2 + sub
        em = bytearray(_pkcs(rng, k, _good_pm(rng, cv)))
        em[pos] = 0
        return _enc(bytes(em), k, n, e), 'em[%d]=0' % pos
    if cls == 'no-separator':
        if sub == 0:
            em = b'\x00\x02' + _nz(rng, k - 2)
        else:
            em = b'\x00\x02' + b'\xff' * (k - 2)
        return _enc(em, k, n, e), 'no zero byte after the block type (%d)' % sub
    if cls in ('separator-at-last-position', 'len-0'):
        return _enc(_pkcs(rng, k, b''), k, n, e), 'valid padding, empty message'
    if cls == 'wrong-version':
        vs = wrong_versions(cv, nv)
        v = vs[sub % len(vs)]
        return _enc(_pkcs(rng, k, bytes(v) + _rand(rng, 46)), k, n, e), 'premaster version %r' % (v,)
    if cls == 'len-47':
        return _enc(_pkcs(rng, k, bytes(cv) + _rand(rng, 45)), k, n, e), '47-byte message'
    if cls == 'len-49':
        return _enc(_pkcs(rng, k, bytes(cv) + _rand(rng, 47)), k, n, e), '49-byte message'
    if cls == 'len-1':
        msg = bytes([cv[0]]) if sub == 0 else _rand(rng, 1)
        return _enc(_pkcs(rng, k, msg), k, n, e), '1-byte message %s' % msg.hex()
    if cls == 'len-2':
        return _enc(_pkcs(rng, k, bytes(cv)), k, n, e), 'message = version bytes only'
    if cls == 'len-max':
        return _enc(_pkcs(rng, k, bytes(cv) + _rand(rng, k - 11 - 2)), k, n, e), '%d-byte message (8-byte PS)' % (k - 11)
    if cls == 'all-zero-ciphertext':
        return bytes(k), 'c = 0'
    if cls == 'ciphertext-one':
        return (1).to_bytes(k, 'big'), 'c = 1'
    if cls == 'ciphertext-n-minus-1':
        return (n - 1).to_bytes(k, 'big'), 'c = n-1'
    if cls == 'ciphertext-ge-n':
        lim = 1 << (8 * k)
        c = [n, n + 1, lim - 1, rng.randrange(n, lim)][sub]
        return int(c).to_bytes(k, 'big'), 'c >= n (%s)' % ['n', 'n+1', '2^(8k)-1', 'random'][sub]
    if cls == 'ciphertext-short':
        good = _enc(_pkcs(rng, k, _good_pm(rng, cv)), k, n, e)
        if sub == 0:
            return good[:-1], 'valid ciphertext, last byte dropped'
        if sub == 1:
            return good[1:], 'valid ciphertext, first byte dropped'
        if sub == 2:
            return _rand(rng, k - 1), 'random k-1 bytes'
        if sub == 3:
            return b'\x00', 'one zero byte'
        for _ in range(20000):      # a valid ciphertext < 2^(8(k-1)), sent without its leading zero
            c = _enc(_pkcs(rng, k, _good_pm(rng, cv)), k, n, e)
            if c[0] == 0:
                return c[1:], 'valid ciphertext with leading zero byte stripped'
        return good[1:], 'valid ciphertext, first byte dropped (no small ciphertext found)'
    if cls == 'ciphertext-long':
        good = _enc(_pkcs(rng, k, _good_pm(rng, cv)), k, n, e)
        if sub == 0:
            return b'\x00' + good, 'valid ciphertext with an extra leading zero'
        if sub == 1:
            return good + b'\x00', 'valid ciphertext with a trailing byte'
        if sub == 2:
            return _rand(rng, k + 1), 'random k+1 bytes'
        return good + good, 'valid ciphertext twice (2k bytes)'
    if cls == 'ciphertext-empty':
        return b'', 'empty'
    if cls == 'random-ciphertext':
        return rng.randrange(2, n - 1).to_bytes(k, 'big'), 'random c < n'
    raise ValueError(cls)


# ------------------------------------------------------------------------------------------
# variants
_SET_KEYS = ('cipherNames', 'macNames', 'useEncryptThenMAC', 'useExtendedMasterSecret')


def _variant(version, cipher, mac, etm=True, ems=True, client_max=None, tag=None):
    name = '%s-%s%s%s' % (cipher, mac, '' if etm else '-noetm', '' if ems else '-noems')
    if client_max:
        name += '-clientmax%d%d' % tuple(client_max)
    v = {'name': tag or name, 'version': tuple(version),
         'settings': {'keyExchangeNames': ['rsa'], 'cipherNames': [cipher], 'macNames': [mac],
                      'useEncryptThenMAC': bool(etm), 'useExtendedMasterSecret': bool(ems)}}
    if client_max:
        v['client_max'] = tuple(client_max)
    return v


def VARIANTS(quick):
    V = []
    for ver in [(3, 0), (3, 1), (3, 2), (3, 3)]:
        V.append(_variant(ver, 'aes128', 'sha'))
    V.append(_variant((3, 0), 'rc4', 'md5'))
    V.append(_variant((3, 1), 'aes128', 'sha', etm=False, ems=False))
    V.append(_variant((3, 1), 'rc4', 'sha'))
    V.append(_variant((3, 2), '3des', 'sha'))
    V.append(_variant((3, 3), 'aes256', 'sha256'))
    V.append(_variant((3, 3), 'aes128gcm', 'aead'))
    V.append(_variant((3, 3), 'aes128', 'sha', etm=False, ems=False))
    V.append(_variant((3, 3), 'aes128', 'sha', etm=True, ems=False))
    V.append(_variant((3, 3), 'aes128', 'sha', etm=False, ems=True))
    # ClientHello.client_version (3,3) but (3,2) negotiated: the premaster may carry either
    V.append(_variant((3, 2), 'aes128', 'sha', client_max=(3, 3)))
    # gaps of two and three between the advertised and the negotiated version (a premaster version strictly
    # in between must be treated like any other wrong version); SSLv3 only without EMS (see below)
    V.append(_variant((3, 1), 'aes128', 'sha', client_max=(3, 3)))
    V.append(_variant((3, 0), 'aes128', 'sha', etm=True, ems=False, client_max=(3, 3)))
    V.append(_variant((3, 0), 'aes128', 'sha', etm=True, ems=False, client_max=(3, 2)))
    if quick:
        return V
    seen = set((v['name'], v['version']) for v in V)

    def add(v):
        if (v['name'], v['version']) not in seen:
            seen.add((v['name'], v['version']))
            V.append(v)
    for ver in [(3, 0), (3, 1), (3, 2), (3, 3)]:
        for cipher, mac in [('aes128', 'sha'), ('aes256', 'sha'), ('3des', 'sha'), ('rc4', 'sha'), ('rc4', 'md5'),
                            ('null', 'sha'), ('null', 'md5')]:
            for etm in (True, False):
                for ems in (True, False):
                    if cipher in ('rc4', 'null') and not etm:
                        continue        # encrypt-then-MAC only applies to CBC suites
                    add(_variant(ver, cipher, mac, etm, ems))
    for cipher, mac in [('aes128', 'sha256'), ('aes256', 'sha256'), ('null', 'sha256')]:
        for etm in (True, False):
            for ems in (True, False):
                if cipher == 'null' and not etm:
                    continue
                add(_variant((3, 3), cipher, mac, etm, ems))
    for cipher in ['aes128gcm', 'aes256gcm', 'aes128ccm', 'aes256ccm', 'aes128ccm_8', 'aes256ccm_8']:
        for ems in (True, False):
            add(_variant((3, 3), cipher, 'aead', True, ems))
    for neg, cmax in [((3, 1), (3, 3)), ((3, 1), (3, 2)), ((3, 2), (3, 3))]:
        for etm, ems in [(True, True), (False, False)]:
            add(_variant(neg, 'aes128', 'sha', etm, ems, client_max=cmax))
    add(_variant((3, 0), 'aes128', 'sha', etm=True, ems=False, client_max=(3, 1)))
    # SSLv3 negotiated by a server capped at (3,0) with a client offering up to TLS1.2: only without
    # extended master secret.  Observed on the unchanged tree: with useExtendedMasterSecret=True on both
    # sides the server agrees to EMS in SSLv3 and then BOTH endpoints die with a bare AssertionError in
    # mathtls.calc_key (label b"extended master secret" is not allowed for version (3,0)) -- an honest
    # handshake fails, so there is no key-transport behaviour to compare (not a C11 matter).
    add(_variant((3, 0), 'aes128', 'sha', etm=True, ems=False, client_max=(3, 3)))
    add(_variant((3, 0), 'aes128', 'sha', etm=False, ems=False, client_max=(3, 3)))
    return V


# ------------------------------------------------------------------------------------------
_WARM = [False]


def _server_creds():
    chain, key = loop.creds('rsa')
    if not _WARM[0]:
        # Python_RSAKey draws its blinding pair from getRandomNumber on its FIRST private
        # operation only.  Do that operation once here (under a fixed DetRandom so that even the
        # blinding values are reproducible) so no measured handshake differs in its random stream.
        d = loop.DetRandom(0xC11).install()
        try:
            ct = key.encrypt(bytearray(b'\x03\x03' + bytes(46)))
            key.decrypt(ct)
        finally:
            d.uninstall()
        _WARM[0] = True
    return chain, key


def _split_records(buf):
    """complete TLS records at the front of buf -> list of bytes"""
    out, i = [], 0
    while len(buf) - i >= 5:
        ln = (buf[i + 3] << 8) | buf[i + 4]
        if len(buf) - i < 5 + ln:
            break
        out.append(bytes(buf[i:i + 5 + ln]))
        i += 5 + ln
    return out


def _parse_server_output(data, state):
    """bytes written by the server in one step -> list of record tuples.
    state['enc'] becomes True once the server has sent ChangeCipherSpec."""
    recs, i = [], 0
    while i < len(data):
        if len(data) - i < 5:
            recs.append(('partial', len(data) - i))
            break
        ct, ver, ln = data[i], (data[i + 1], data[i + 2]), (data[i + 3] << 8) | data[i + 4]
        body = data[i + 5:i + 5 + ln]
        r = (ct, ver, ln)
        if ct == ContentType.alert and not state['enc'] and ln == 2 and len(body) == 2:
            r = r + (body[0], body[1])
        if ct == ContentType.change_cipher_spec:
            state['enc'] = True
        recs.append(r)
        i += 5 + ln
    return recs


def _step(gen, sock, budget):
    """Run one endpoint until it finishes or wants to read with nothing to read."""
    while True:
        try:
            r = next(gen)
        except StopIteration:
            return ('ok', None)
        except Exception as e:  # noqa
            return ('exc', e)
        budget[0] -= 1
        if budget[0] <= 0:
            return ('exc', loop.Deadlock('step budget'))
        if r == 0 and not sock.inbuf:
            return None


def run_handshake(variant, replacement=None, make_replacement=None, max_steps=200000, pm_version_fn=None):
    """One handshake with record-granular delivery client -> server.
    replacement: bytes to put into ClientKeyExchange.encryptedPreMasterSecret, or
    make_replacement(client_version, negotiated_version) -> bytes; both None = honest client.
    pm_version_fn(client_version, negotiated_version) -> (maj, min): a CONSISTENTLY deviating client:
    it puts these version bytes into its premaster secret, encrypts that correctly and derives its
    own keys from it (so only the server's version check stands between it and a completed
    handshake).  Done by wrapping RSAKeyExchange.processServerKeyExchange, a method only the client
    role ever calls (the server's processClientKeyExchange is untouched)."""
    if pm_version_fn is not None:
        import tlslite.keyexchange as _kx
        orig_psk = _kx.RSAKeyExchange.processServerKeyExchange

        def psk(self, srvPublicKey, serverKeyExchange):
            pm = orig_psk(self, srvPublicKey, serverKeyExchange)
            v = pm_version_fn(tuple(self.clientHello.client_version), tuple(self.serverHello.server_version))
            if v is not None:
                pm[0], pm[1] = v
                self.encPremasterSecret = srvPublicKey.encrypt(pm)
            return pm
        _kx.RSAKeyExchange.processServerKeyExchange = psk
        try:
            return run_handshake(variant, replacement, make_replacement, max_steps)
        finally:
            _kx.RSAKeyExchange.processServerKeyExchange = orig_psk
    chain, key = _server_creds()
    ver = tuple(variant['version'])
    cmax = tuple(variant.get('client_max') or ver)
    st = dict(variant['settings'])
    for kname in list(st):
        if isinstance(st[kname], tuple):
            st[kname] = list(st[kname])
    pair = loop.Pair()
    held = bytearray()
    total = [0]
    info = {'cke_at': None, 'client_version': None, 'sent_ct_len': None}

    def hold(name, chunk):
        held.extend(chunk)
        total[0] += len(chunk)
        return b''
    pair.csock.tap = hold

    orig_send = pair.client._sendMsg          # the deviating peer is the CLIENT

    def send(msg, *a, **kw):
        if isinstance(msg, ClientHello):
            info['client_version'] = tuple(msg.client_version)
        if isinstance(msg, ClientKeyExchange):
            info['cke_at'] = total[0]
            info['cke_suite'] = msg.cipherSuite
            rep = replacement
            if rep is None and make_replacement is not None:
                rep = make_replacement(info['client_version'], tuple(pair.client.version))
            if rep is not None:
                msg.encryptedPreMasterSecret = bytearray(rep)
                info['sent_ct_len'] = len(rep)
            info['sent_ct'] = bytes(msg.encryptedPreMasterSecret)
        return orig_send(msg, *a, **kw)
    pair.client._sendMsg = send

    cg = pair.client.handshakeClientCert(async_=True, settings=loop.settings(min(ver, cmax), cmax, **st))
    sg = pair.server.handshakeServerAsync(certChain=chain, privateKey=key, settings=loop.settings(ver, ver, **st))

    budget = [max_steps]
    c_out = s_out = None
    delivered = 0            # client bytes handed to the server so far
    trace = []               # (start offset of delivered client record or 'eof', client record type, server records)
    pstate = {'enc': False}
    client_closed = False
    idle = 0
    while c_out is None or s_out is None:
        progressed = False
        if c_out is None:
            before = (total[0], len(pair.csock.inbuf))
            c_out = _step(cg, pair.csock, budget)
            if c_out is not None or (total[0], len(pair.csock.inbuf)) != before:
                progressed = True
        # a client-side close must not overtake data still held back
        if pair.ssock.peer_closed:
            client_closed = True
        if client_closed:
            pair.ssock.peer_closed = not held
        if s_out is None:
            recs = _split_records(held)
            trigger, rtype = None, None
            if recs:
                rec = recs[0]
            elif held and c_out is not None:
                rec = bytes(held)           # trailing garbage from a finished client
            else:
                rec = None
            if rec is not None:
                trigger, rtype = delivered, rec[0]
                del held[:len(rec)]
                delivered += len(rec)
                pair.ssock.inbuf += rec
                progressed = True
                if client_closed:
                    pair.ssock.peer_closed = not held
            elif client_closed:
                trigger = 'eof'
            n0 = len(pair.ssock.sent_log)
            s_out = _step(sg, pair.ssock, budget)
            out = b''.join(pair.ssock.sent_log[n0:])
            if out or s_out is not None:
                progressed = True
            if out or trigger is not None:
                trace.append((trigger, rtype, _parse_server_output(out, pstate)))
        idle = 0 if progressed else idle + 1
        if idle > 50:
            if c_out is None:
                c_out = ('exc', loop.Deadlock('no progress'))
            if s_out is None:
                s_out = ('exc', loop.Deadlock('no progress'))
    unread = len(held) + len(pair.ssock.inbuf) + len(getattr(pair.server.sock, '_read_buffer', b''))
    return {'pair': pair, 'client': c_out, 'server': s_out, 'trace': trace, 'info': info, 'unread': unread}


def _canonical(res):
    """behaviour tuple from a run_handshake result (None if no ClientKeyExchange was sent)."""
    cke_at = res['info']['cke_at']
    if cke_at is None:
        return None
    recs = []
    idx = {}
    after = False
    for trigger, rtype, srecs in res['trace']:
        if isinstance(trigger, int) and trigger >= cke_at:
            after = True
        if not after:
            continue
        if trigger == 'eof':
            t = 'eof'
        elif trigger is None:
            t = 'none'
        else:
            t = idx.setdefault(trigger, len(idx))
        for r in srecs:
            recs.append((t,) + tuple(r))
    return (tuple(recs), loop.classify(res['server']), res['unread'])


def _case_rng(seed, cls, subseed):
    return random.Random('c11-live:%d:%s:%d' % (seed, cls, subseed))


def _run_case(variant, cls, seed, subseed):
    chain, key = _server_creds()
    n, e = int(key.n), int(key.e)
    k = (n.bit_length() + 7) // 8
    rng = _case_rng(seed, cls, subseed)
    made = {}

    def mk(cv, nv):
        ct, desc = make_ciphertext(cls, subseed, k, n, e, cv, rng, nv)
        made['desc'] = desc
        made['ct'] = ct
        return ct
    def pmv(cv, nv):
        vs = [v for v in VERSION_SWEEP + [(cv[1], cv[0]), (cv[0], cv[1] ^ 0x80), (0xff, 0xff)]
              if v != tuple(cv) and v != tuple(nv)]
        v = vs[subseed % len(vs)]
        made['desc'] = ('client consistently uses a premaster with version bytes %r (client_version %r, negotiated %r)'
                        % (v, tuple(cv), tuple(nv)))
        made['pm_version'] = v
        return v
    det = loop.DetRandom(seed).install()
    try:
        if cls == 'consistent-wrong-version':
            res = run_handshake(variant, pm_version_fn=pmv)
            if res['info'].get('sent_ct') is not None:
                made['ct'] = res['info']['sent_ct']
        else:
            res = run_handshake(variant, make_replacement=mk)
    finally:
        det.uninstall()
    return res, made


def behaviour(variant, cls, seed, subseed=0):
    """One tampered handshake.  Returns dict(behaviour=tuple, detail={...})."""
    res, made = _run_case(variant, cls, seed, subseed)
    beh = _canonical(res)
    alerts = [r for r in (beh[0] if beh else ()) if len(r) >= 6]
    detail = {
        'cls': cls, 'subseed': subseed, 'desc': made.get('desc'),
        'ciphertext': made['ct'].hex() if 'ct' in made else None,
        'client_outcome': loop.classify(res['client']),
        'server_outcome': loop.classify(res['server']),
        'client_version': res['info']['client_version'],
        'suite': res['info'].get('cke_suite'),
        'alerts': alerts,
        'n_server_records': len(beh[0]) if beh else None,
        'unread': res['unread'],
    }
    return {'behaviour': beh, 'detail': detail}


def honest(variant, seed):
    det = loop.DetRandom(seed).install()
    try:
        res = run_handshake(variant)
    finally:
        det.uninstall()
    p = res['pair']
    out = {'client': loop.classify(res['client']), 'server': loop.classify(res['server']),
           'suite_s': p.server.session.cipherSuite if p.server.session else None,
           'suite_c': p.client.session.cipherSuite if p.client.session else None,
           'version_s': tuple(p.server.version), 'version_c': tuple(p.client.version),
           'client_version': res['info']['client_version'],
           'etm': getattr(p.server.session, 'encryptThenMAC', None) if p.server.session else None,
           'ems': getattr(p.server.session, 'extendedMasterSecret', None) if p.server.session else None,
           'behaviour': _canonical(res)}
    return out


def sanity_of(beh, detail):
    """Facts every tampered handshake must satisfy (returns list of strings; empty = fine)."""
    bad = []
    if beh is None:
        return ['client never sent ClientKeyExchange']
    if beh[1] == ('ok',):
        bad.append('server finished the handshake')
    alerts = [r for r in beh[0] if r[1] == ContentType.alert]
    if len(alerts) != 1:
        bad.append('server wrote %d alert records' % len(alerts))
    elif len(alerts[0]) < 6 or alerts[0][4] != 2:
        bad.append('alert is not a plaintext fatal alert: %r' % (alerts[0],))
    return bad


def plan(variant, quick, seed_index):
    """(cls, subseed) list for one group.  quick: every enumerated sub-instance once;
    thorough: twice that (the second round only differs in the rng-drawn parts)."""
    out = []
    for cls in CLASSES:
        if cls == BASELINE:
            continue
        reps = NSUB[cls] if quick else 2 * NSUB[cls] + 1
        for s in range(reps):
            out.append((cls, s))
    return out


def run_group(args):
    """Worker: everything for one (variant, seed).  Returns plain picklable data."""
    variant, seed, quick, seed_index = args
    t0 = time.time()
    out = {'variant': variant, 'seed': seed, 'problems': [], 'cases': [], 'baseline': None, 'honest': None}
    try:
        h = honest(variant, seed)
        out['honest'] = h
        ver = tuple(variant['version'])
        if h['client'] != ('ok',) or h['server'] != ('ok',):
            out['problems'].append('honest handshake fails for %s %s: client %r server %r (version not negotiable?)'
                                   % (VERSION_NAMES[ver], variant['name'], h['client'], h['server']))
            return out
        if h['version_s'] != ver or h['suite_s'] != h['suite_c'] or h['suite_s'] not in CipherSuite.certSuites:
            out['problems'].append('honest handshake for %s %s negotiated version %r suite %r: not the wanted RSA key '
                                   'transport' % (VERSION_NAMES[ver], variant['name'], h['version_s'], h['suite_s']))
            return out
        want_cv = tuple(variant.get('client_max') or ver)
        if h['client_version'] != want_cv:
            out['problems'].append('client_version %r != %r' % (h['client_version'], want_cv))
            return out
        b1 = behaviour(variant, BASELINE, seed, 0)
        b2 = behaviour(variant, BASELINE, seed, 0)
        out['baseline'] = b1
        if b1['behaviour'] != b2['behaviour'] or b1['detail'] != b2['detail']:
            out['problems'].append('baseline not deterministic for %s %s seed %d: %r vs %r'
                                   % (VERSION_NAMES[ver], variant['name'], seed, b1['behaviour'], b2['behaviour']))
            return out
        s = sanity_of(b1['behaviour'], b1['detail'])
        if s:
            out['problems'].append('baseline (well padded, wrong secret) for %s %s seed %d: %s; behaviour %r'
                                   % (VERSION_NAMES[ver], variant['name'], seed, '; '.join(s), b1['behaviour']))
        # a second well-formed-but-wrong premaster (different secret bytes) is a case like any other
        out['cases'].append(behaviour(variant, BASELINE, seed, 1))
        for cls, sub in plan(variant, quick, seed_index):
            out['cases'].append(behaviour(variant, cls, seed, sub))
        # the random stream must not have been disturbed by the cases above
        b3 = behaviour(variant, BASELINE, seed, 0)
        if b3['behaviour'] != b1['behaviour']:
            out['problems'].append('baseline changed after the cases for %s %s seed %d: %r vs %r'
                                   % (VERSION_NAMES[ver], variant['name'], seed, b1['behaviour'], b3['behaviour']))
    except Exception as e:  # noqa
        import traceback
        out['problems'].append('harness exception in group %s %s seed %d: %s'
                               % (variant.get('name'), variant.get('version'), seed, traceback.format_exc()[-1500:]))
    out['wall'] = time.time() - t0
    return out


def _jsonable_variant(v):
    return {'name': v['name'], 'version': list(v['version']), 'settings': v['settings'],
            **({'client_max': list(v['client_max'])} if v.get('client_max') else {})}


LAST_COMMON = {}     # (version string, variant name) -> set of baseline behaviours of the last run_live


def run_live(ctx, quick):
    """Returns (found, problems)."""
    global LAST_COMMON
    t0 = time.time()
    variants = VARIANTS(quick)
    nseeds = 2 if quick else 3
    groups = []
    for v in variants:
        for si in range(nseeds):
            groups.append((v, ctx.rng.randrange(1, 2 ** 32), quick, si))
    _server_creds()                      # warm before forking so every worker inherits the same key state
    nproc = min(16, os.cpu_count() or 4, len(groups))
    if nproc > 1:
        mp = multiprocessing.get_context('fork')
        with mp.Pool(nproc) as pool:
            results = pool.map(run_group, groups, chunksize=1)
    else:
        results = [run_group(g) for g in groups]
    found = False
    problems = []
    n_hs = 0
    reported = set()
    common = {}
    for g in results:
        v = g['variant']
        ver = tuple(v['version'])
        vs = VERSION_NAMES[ver]
        problems += g['problems']
        if g['baseline'] is None:
            continue
        base = g['baseline']['behaviour']
        n_hs += 4      # honest + baseline + determinism re-run + baseline after the cases
        ctx.count('live-wire-behaviour', 1, [(vs, v['name'], BASELINE)],
                  sample={'variant': v['name'], 'version': vs, 'seed': g['seed'], 'behaviour': repr(base),
                          'detail': g['baseline']['detail']} if len(common) < 4 else None)
        common.setdefault((vs, v['name']), set()).add(base)
        for c in g['cases']:
            n_hs += 1
            cls = c['detail']['cls']
            ctx.count('live-wire-behaviour', 1, [(vs, v['name'], cls)])
            bad_sanity = sanity_of(c['behaviour'], c['detail'])
            if c['behaviour'] != base or bad_sanity:
                found = True
                key = 'live-oracle:%s:%s' % (cls, vs)
                if key in reported:
                    continue
                reported.add(key)
                if c['behaviour'] != base:
                    what = ('server wire behaviour for malformed encrypted premaster class %s (%s) differs from the '
                            'baseline (well padded, wrong secret) in %s %s: %r vs baseline %r'
                            % (cls, c['detail']['desc'], vs, v['name'], c['behaviour'], base))
                else:
                    what = ('server does not abort with exactly one fatal alert for malformed encrypted premaster '
                            'class %s (%s) in %s %s: %s; behaviour %r'
                            % (cls, c['detail']['desc'], vs, v['name'], '; '.join(bad_sanity), c['behaviour']))
                ctx.violation(key, what,
                              {'variant': _jsonable_variant(v), 'cls': cls, 'seed': g['seed'],
                               'subseed': c['detail']['subseed'], 'ciphertext': c['detail']['ciphertext'],
                               'desc': c['detail']['desc'], 'behaviour': repr(c['behaviour']),
                               'baseline': repr(base), 'detail': c['detail'],
                               'how': 'harness/c11_live.py replay (c11_live.replay_live(this dict))'},
                              found_input=True)
    LAST_COMMON = common
    for p in problems:
        ctx.log('live: HARNESS PROBLEM: %s' % p)
    by_ver = {}
    for (vs, name), bs in sorted(common.items()):
        for b in bs:
            by_ver.setdefault((vs, b[0], b[1], b[2]), []).append(name)
    for (vs, recs, outc, unread), names in sorted(by_ver.items(), key=repr):
        ctx.log('live: %s common behaviour records=%r server=%r unread=%d  [%d variant(s): %s]'
                % (vs, recs, outc, unread, len(set(names)), ','.join(sorted(set(names)))[:160]))
    ctx.log('live: %d handshakes in %d groups (%d variants x %d seeds), %d classes, %.1fs; found=%s problems=%d'
            % (n_hs, len(groups), len(variants), nseeds, len(CLASSES), time.time() - t0, found, len(problems)))
    return found, problems


def replay_live(rep):
    """Re-run a replay dict written by run_live; prints both behaviours; 0 if equal else 1."""
    v = dict(rep['variant'])
    v['version'] = tuple(v['version'])
    if v.get('client_max'):
        v['client_max'] = tuple(v['client_max'])
    seed = int(rep['seed'])
    cls = rep['cls']
    sub = int(rep.get('subseed', 0))
    h = honest(v, seed)
    print('honest handshake: client %r server %r suite %r version %r' % (h['client'], h['server'], h['suite_s'], h['version_s']))
    base = behaviour(v, BASELINE, seed, 0)
    case = behaviour(v, cls, seed, sub)
    print('variant  :', v['name'], VERSION_NAMES.get(v['version'], v['version']), 'seed', seed)
    print('baseline : %s -> %r' % (base['detail']['desc'], base['behaviour']))
    print('           client saw %r' % (base['detail']['client_outcome'],))
    print('%-9s: %s -> %r' % (cls, case['detail']['desc'], case['behaviour']))
    print('           client saw %r' % (case['detail']['client_outcome'],))
    if rep.get('ciphertext') is not None and rep['ciphertext'] != case['detail']['ciphertext']:
        print('note: regenerated ciphertext differs from the recorded one (different key or generator?)')
    s = sanity_of(case['behaviour'], case['detail'])
    if s:
        print('sanity   :', '; '.join(s))
    equal = case['behaviour'] == base['behaviour'] and not s
    print('EQUAL' if equal else 'DIFFERENT')
    return 0 if equal else 1


if __name__ == '__main__':
    import json
    with open(sys.argv[1]) as f:
        sys.exit(replay_live(json.load(f)))
